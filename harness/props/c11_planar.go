package props

import (
	"fmt"
	"time"

	"github.com/Tom-Johnston/mamba/graph"
	"pgregory.net/rapid"
	"verifharness/oracle"
)

// C11: IsPlanar decides planarity for every graph and never aborts.

type planarCase struct {
	G         GSpec
	Expect    int     // 1 planar by construction, 0 non-planar by construction, -1 unknown (oracle decides)
	Perm      []int   // relabelling
	MorePerms [][]int // further relabellings (label-order dependent defects show only for a small fraction of labellings)
	Subdivide []int   // indices (into G.E) of edges to subdivide
	DelEdge   int     // index of an edge to delete (subgraph closure), -1 none
	DelVertex int     // vertex to delete, -1 none
	Pendant   []int   // vertices that get a pendant neighbour
	Isolated  int     // isolated vertices to add
}

// genTriangulation builds a planar triangulation on n >= 3 vertices by face insertions and edge flips.
func genTriangulation(t *rapid.T, n int) *oracle.G {
	g := oracle.New(3)
	g.Add(0, 1)
	g.Add(1, 2)
	g.Add(0, 2)
	faces := [][3]int{{0, 1, 2}, {0, 1, 2}}
	if n >= 12 && rapid.IntRange(0, 2).Draw(t, "icosahedral") == 0 {
		// start from the icosahedron: the planar graphs of minimum degree 5 (degeneracy exactly 5) all contain such a core,
		// and stacking vertices into its faces keeps it
		g = oracle.New(12)
		faces = faces[:0]
		u := func(i int) int { return 1 + i%5 }
		l := func(i int) int { return 6 + i%5 }
		for i := 0; i < 5; i++ {
			faces = append(faces, [3]int{0, u(i), u(i + 1)}, [3]int{11, l(i), l(i + 1)}, [3]int{u(i), u(i + 1), l(i + 1)}, [3]int{u(i), l(i), l(i + 1)})
		}
		for _, f := range faces {
			g.Add(f[0], f[1])
			g.Add(f[1], f[2])
			g.Add(f[0], f[2])
		}
	}
	for g.N < n {
		fi := rapid.IntRange(0, len(faces)-1).Draw(t, "face")
		f := faces[fi]
		v := g.AddVertex([]int{f[0], f[1], f[2]})
		faces[fi] = [3]int{f[0], f[1], v}
		faces = append(faces, [3]int{f[1], f[2], v}, [3]int{f[0], f[2], v})
		// a few flips to leave the class of stacked triangulations
		for k := rapid.IntRange(0, 2).Draw(t, "flips"); k > 0; k-- {
			es := g.Edges()
			e := es[rapid.IntRange(0, len(es)-1).Draw(t, "flipedge")]
			a, b := e[0], e[1]
			var idx []int
			for i, ff := range faces {
				if (ff[0] == a || ff[1] == a || ff[2] == a) && (ff[0] == b || ff[1] == b || ff[2] == b) {
					idx = append(idx, i)
				}
			}
			if len(idx) != 2 {
				continue
			}
			third := func(ff [3]int) int { return ff[0] + ff[1] + ff[2] - a - b }
			c, d := third(faces[idx[0]]), third(faces[idx[1]])
			if c == d || g.Has(c, d) {
				continue
			}
			g.Del(a, b)
			g.Add(c, d)
			faces[idx[0]] = [3]int{c, d, a}
			faces[idx[1]] = [3]int{c, d, b}
		}
	}
	return g
}

// genTheta: two hub vertices joined by k internally disjoint paths (a generalised theta graph) with chords between
// inner vertices of cyclically neighbouring paths only: planar by construction (draw the paths side by side). Many
// parallel fragments between one pair of attachment vertices, split again and again by late chords.
func genTheta(t *rapid.T, maxN int) *oracle.G {
	k := rapid.IntRange(3, 9).Draw(t, "paths")
	g := oracle.New(2)
	if rapid.Bool().Draw(t, "hubedge") {
		g.Add(0, 1)
	}
	paths := make([][]int, k)
	for i := range paths {
		L := rapid.IntRange(1, 3).Draw(t, "inner")
		prev := 0
		for j := 0; j < L && g.N < maxN; j++ {
			v := g.AddVertex([]int{prev})
			paths[i] = append(paths[i], v)
			prev = v
		}
		g.Add(prev, 1)
	}
	for i := 0; i < k; i++ {
		a, b := paths[i], paths[(i+1)%k]
		if i == k-1 && g.Has(0, 1) {
			break // with the hub edge drawn between the last and the first path, those two are not neighbours
		}
		if len(a) == 0 || len(b) == 0 {
			continue
		}
		// non-crossing chords between two neighbouring paths: a monotone matching
		ia, ib := 0, 0
		for ia < len(a) && ib < len(b) {
			switch rapid.IntRange(0, 3).Draw(t, "chord") {
			case 0:
				g.Add(a[ia], b[ib])
				if rapid.Bool().Draw(t, "stepboth") {
					ia++
				}
				ib++
			case 1:
				ia++
			case 2:
				ib++
			default:
				g.Add(a[ia], b[ib])
				ia++
			}
		}
	}
	return g
}

func genPlanarByConstruction(t *rapid.T, maxN int) *oracle.G {
	if maxN >= 9 && rapid.IntRange(0, 5).Draw(t, "theta") == 0 {
		return genTheta(t, maxN)
	}
	switch rapid.IntRange(0, 6).Draw(t, "pkind") {
	case 0, 1: // triangulation, possibly thinned
		g := genTriangulation(t, rapid.IntRange(3, max(3, maxN)).Draw(t, "n"))
		keep := rapid.SampledFrom([]int{8, 8, 7, 6, 4}).Draw(t, "keep") // eighths of the edges kept
		if keep < 8 {
			for _, e := range g.Edges() {
				if rapid.IntRange(0, 7).Draw(t, "drop") >= keep {
					g.Del(e[0], e[1])
				}
			}
		}
		return g
	case 2: // grid
		a := rapid.IntRange(1, 8).Draw(t, "ga")
		b := rapid.IntRange(1, max(1, min(maxN/a, 12))).Draw(t, "gb")
		return mProduct("cartesian", mPath(a), mPath(b))
	case 3: // outerplanar: cycle plus non-crossing chords (triangulated polygon by ear insertion)
		n := rapid.IntRange(3, max(3, maxN)).Draw(t, "n")
		g := mCycle(n)
		// chords between i and j are non-crossing if drawn as a fan from recursive splitting
		var split func(lo, hi int)
		split = func(lo, hi int) {
			if hi-lo < 2 {
				return
			}
			mid := rapid.IntRange(lo+1, hi-1).Draw(t, "mid")
			if rapid.IntRange(0, 3).Draw(t, "chord") != 0 {
				g.Add(lo, mid)
				g.Add(mid, hi)
			}
			split(lo, mid)
			split(mid, hi)
		}
		split(0, n-1)
		return g
	case 4: // trees and cacti
		return genStructured(t, maxN) // may be anything planar or not; handled by the caller via oracle
	case 5: // wheel / prism / antiprism families
		n := rapid.IntRange(3, max(3, maxN/2)).Draw(t, "n")
		switch rapid.IntRange(0, 2).Draw(t, "fam") {
		case 0:
			return mWheel(n + 1)
		case 1:
			return mProduct("cartesian", mCycle(n), mPath(2))
		default: // antiprism
			g := oracle.New(2 * n)
			for i := 0; i < n; i++ {
				g.Add(i, (i+1)%n)
				g.Add(n+i, n+(i+1)%n)
				g.Add(i, n+i)
				g.Add(i, n+(i+1)%n)
			}
			return g
		}
	default: // planar pieces glued at a cut vertex
		a := genTriangulation(t, rapid.IntRange(3, max(3, maxN/2)).Draw(t, "an"))
		b := genTriangulation(t, rapid.IntRange(3, max(3, maxN/2)).Draw(t, "bn"))
		g := oracle.DisjointUnion(a, b)
		// identify vertex a.N-1 with a.N by moving b's first vertex's edges
		for _, u := range g.Nbrs(a.N) {
			g.Add(a.N-1, u)
		}
		g.RemoveVertex(a.N)
		return g
	}
}

// genNonPlanarByConstruction: a subdivided K5 or K3,3 placed after a planar part, with extra connecting edges.
func genNonPlanarByConstruction(t *rapid.T, maxN int) *oracle.G {
	host := genPlanarByConstruction(t, max(3, maxN/2))
	if oracle.Planar(host) == false {
		return host // (the structured generator may already be non-planar)
	}
	g := host.Copy()
	base := g.N
	var kur [][2]int
	k := 5
	if rapid.Bool().Draw(t, "k33") {
		k = 6
		for i := 0; i < 3; i++ {
			for j := 3; j < 6; j++ {
				kur = append(kur, [2]int{i, j})
			}
		}
	} else {
		for i := 0; i < 5; i++ {
			for j := 0; j < i; j++ {
				kur = append(kur, [2]int{j, i})
			}
		}
	}
	// branch vertices: new ones, or (sometimes) existing vertices of the host
	branch := make([]int, k)
	for i := range branch {
		if base >= k && rapid.IntRange(0, 3).Draw(t, "reuse") == 0 {
			branch[i] = i * (base / k) // distinct host vertices
		} else {
			branch[i] = g.AddVertex(nil)
		}
	}
	for _, e := range kur {
		u, v := branch[e[0]], branch[e[1]]
		l := rapid.IntRange(0, 3).Draw(t, "sub")
		prev := u
		for s := 0; s < l; s++ {
			w := g.AddVertex([]int{prev})
			prev = w
		}
		g.Add(prev, v)
	}
	// a few extra edges anywhere (cannot make it planar)
	for x := rapid.IntRange(0, 3).Draw(t, "extra"); x > 0 && g.N >= 2; x-- {
		g.Add(rapid.IntRange(0, g.N-1).Draw(t, "xu"), rapid.IntRange(0, g.N-1).Draw(t, "xv"))
	}
	return g
}

func genPlanarCase(t *rapid.T, maxN int, mode int) planarCase {
	if mode < 2 && rare(t, "beyond64", 12) {
		maxN = max(maxN, 130) // blocks with more than 64 vertices also in the quick tier
	}
	var g *oracle.G
	expect := -1
	switch mode {
	case 0:
		g = genPlanarByConstruction(t, maxN)
		expect = 1
	case 1:
		g = genNonPlanarByConstruction(t, maxN)
		expect = 0
	default:
		// near the 3n-6 threshold
		n := rapid.IntRange(0, maxN).Draw(t, "n")
		g = oracle.New(n)
		if n >= 2 {
			m := rapid.IntRange(max(0, n-2), 3*n-3).Draw(t, "m")
			for i := 0; i < m; i++ {
				g.Add(rapid.IntRange(0, n-1).Draw(t, "u"), rapid.IntRange(0, n-1).Draw(t, "v"))
			}
		}
	}
	// the structured generator used inside mode 0 is not planar by construction
	if mode == 0 && !oracle.Planar(g) {
		expect = 0
	}
	c := planarCase{G: specOf(g), Expect: expect, Perm: genPerm(t, g.N, "pi"), DelEdge: -1, DelVertex: -1}
	for k := sz(10, 30); k > 0 && g.N >= 5; k-- {
		c.MorePerms = append(c.MorePerms, genPerm(t, g.N, "pi-more"))
	}
	m := len(c.G.E)
	for k := rapid.IntRange(0, 3).Draw(t, "nsub"); k > 0 && m > 0; k-- {
		c.Subdivide = append(c.Subdivide, rapid.IntRange(0, m-1).Draw(t, "sub"))
	}
	if m > 0 {
		c.DelEdge = rapid.IntRange(0, m-1).Draw(t, "deledge")
	}
	if g.N > 0 {
		c.DelVertex = rapid.IntRange(0, g.N-1).Draw(t, "delvertex")
		for k := rapid.IntRange(0, 2).Draw(t, "npend"); k > 0; k-- {
			c.Pendant = append(c.Pendant, rapid.IntRange(0, g.N-1).Draw(t, "pend"))
		}
	}
	c.Isolated = rapid.IntRange(0, 2).Draw(t, "isolated")
	return c
}

func isPlanarOf(what string, g *oracle.G, rep string) (bool, error) {
	var gr graph.Graph
	switch rep {
	case "dense":
		gr = denseOf(g)
	case "sparse":
		gr = sparseOf(g)
	default:
		gr = repOf(g, rep)
	}
	var ans bool
	// IsPlanar is polynomial: a call on at most a few hundred vertices that is still running after 60 s (or allocating
	// without bound) does not terminate in any useful sense; the case is saved and the process ends (exit 3 = violation)
	finished, p := withDeadline(60*time.Second, func() { ans = graph.IsPlanar(gr) })
	if !finished {
		raw, _ := jsonMarshal(planarCase{G: specOf(g), Expect: -1, DelEdge: -1, DelVertex: -1})
		hang(currentSub, raw, fmt.Sprintf("IsPlanar(%s, %s; n=%d edges %v) still running after 60 s", what, rep, g.N, clipEdges(g)))
	}
	if p != nil {
		return false, fmt.Errorf("IsPlanar(%s, %s; n=%d edges %v) panicked: %v", what, rep, g.N, clipEdges(g), p)
	}
	return ans, nil
}

func checkPlanarCase(c planarCase, rec *Rec) error {
	g := c.G.Model()
	want := oracle.Planar(g)
	if c.Expect >= 0 && want != (c.Expect == 1) {
		return fmt.Errorf("harness: construction says planar=%v, oracle says %v for n=%d %v", c.Expect == 1, want, g.N, clipEdges(g))
	}
	rec.Labelf("planar-%v", want)
	// non-trivial: some block has >= 5 vertices and the edge count does not settle it
	bigBlock := false
	if g.N <= 16 {
		bl, _ := oracle.Blocks(g)
		for _, b := range bl {
			if len(b) >= 5 {
				bigBlock = true
			}
		}
	} else {
		bl, _ := oracle.BlocksLarge(g)
		for _, b := range bl {
			if len(b) >= 5 {
				bigBlock = true
			}
		}
	}
	rec.NonTrivial(bigBlock && g.M() <= 3*g.N-6)
	rec.Labelf("n-%d", bucket(g.N))
	for _, rep := range []string{"dense", "sparse", "cocomp", "induced-reversed", "induced-nested"} {
		got, err := isPlanarOf("g", g, rep)
		if err != nil {
			return err
		}
		if got != want {
			return fmt.Errorf("IsPlanar(%s; n=%d edges %v) = %v, the graph is planar=%v", rep, g.N, clipEdges(g), got, want)
		}
	}
	expectSame := func(what string, h *oracle.G) error {
		got, err := isPlanarOf(what, h, "dense")
		if err != nil {
			return err
		}
		if got != want {
			return fmt.Errorf("IsPlanar changes from %v to %v under: %s (original n=%d %v)", want, got, what, g.N, clipEdges(g))
		}
		return nil
	}
	// relabelling
	if err := expectSame(fmt.Sprintf("relabelling %v", c.Perm), g.Induced(c.Perm)); err != nil {
		return err
	}
	for _, pi := range c.MorePerms {
		if err := expectSame(fmt.Sprintf("relabelling %v", pi), g.Induced(pi)); err != nil {
			return err
		}
	}
	// subdividing edges
	h := g.Copy()
	for _, idx := range c.Subdivide {
		e := c.G.E[idx]
		if h.Has(e[0], e[1]) {
			h.Del(e[0], e[1])
			h.AddVertex([]int{e[0], e[1]})
		}
	}
	if err := expectSame(fmt.Sprintf("subdividing edges %v", c.Subdivide), h); err != nil {
		return err
	}
	// isolated and pendant vertices
	h = g.Copy()
	for _, v := range c.Pendant {
		h.AddVertex([]int{v})
	}
	for i := 0; i < c.Isolated; i++ {
		h.AddVertex(nil)
	}
	if err := expectSame(fmt.Sprintf("adding pendant vertices at %v and %d isolated vertices", c.Pendant, c.Isolated), h); err != nil {
		return err
	}
	// subgraphs of planar graphs are planar
	if want {
		if c.DelEdge >= 0 {
			h = g.Copy()
			e := c.G.E[c.DelEdge]
			h.Del(e[0], e[1])
			if err := expectSame(fmt.Sprintf("deleting edge %v of a planar graph", e), h); err != nil {
				return err
			}
		}
		if c.DelVertex >= 0 {
			h = g.Copy()
			h.RemoveVertex(c.DelVertex)
			if err := expectSame(fmt.Sprintf("deleting vertex %d of a planar graph", c.DelVertex), h); err != nil {
				return err
			}
		}
	}
	// a view that outlives edits of its host ("reflects the current state of g"): ask, edit the host, ask the same view again
	if g.N >= 2 && g.N <= 40 {
		for _, hostKind := range []string{"dense", "sparse"} {
			model := g.Copy()
			var host graph.EditableGraph = denseOf(model)
			if hostKind == "sparse" {
				host = sparseOf(model)
			}
			rev := make([]int, g.N)
			for i := range rev {
				rev[i] = g.N - 1 - i
			}
			view := graph.InducedSubgraph(host, rev)
			ask := func(when string) error {
				var ans bool
				finished, p := withDeadline(60*time.Second, func() { ans = graph.IsPlanar(view) })
				if !finished {
					raw, _ := jsonMarshal(c)
					hang(currentSub, raw, fmt.Sprintf("IsPlanar(view of a %s host, %s) still running after 60 s", hostKind, when))
				}
				if p != nil {
					return fmt.Errorf("IsPlanar(view of a %s host, %s) panicked: %v", hostKind, when, p)
				}
				if w := oracle.Planar(model); ans != w {
					return fmt.Errorf("IsPlanar(one InducedSubgraph view of a %s host, %s) = %v, the host now is planar=%v (n=%d edges %v)", hostKind, when, ans, w, model.N, clipEdges(model))
				}
				return nil
			}
			if err := ask("before any edit"); err != nil {
				return err
			}
			steps := 0
			for k := 0; k < 4 && steps < 3; k++ {
				a := int(hashPrefix(uint64(g.N*131+g.M()), []int{k, 1}) % uint64(g.N))
				b := int(hashPrefix(uint64(g.N*131+g.M()), []int{k, 2}) % uint64(g.N))
				if c.DelEdge >= 0 && k == 0 {
					a, b = c.G.E[c.DelEdge][0], c.G.E[c.DelEdge][1]
				}
				if a == b {
					continue
				}
				if model.Has(a, b) {
					model.Del(a, b)
					host.RemoveEdge(a, b)
				} else {
					model.Add(a, b)
					host.AddEdge(a, b)
				}
				steps++
				if err := ask(fmt.Sprintf("after toggling %d edges of the host, last %d-%d", steps, a, b)); err != nil {
					return err
				}
			}
		}
	}
	// disjoint union with K4 (planar) keeps the answer, with K5 makes it non-planar
	if err := expectSame("disjoint union with K4", oracle.DisjointUnion(g, mComplete(4))); err != nil {
		return err
	}
	got, err := isPlanarOf("disjoint union with K5", oracle.DisjointUnion(mComplete(5), g), "dense")
	if err != nil {
		return err
	}
	if got {
		return fmt.Errorf("IsPlanar(K5 + g) = true (g: n=%d %v)", g.N, clipEdges(g))
	}
	return nil
}

type classCase struct {
	G    GSpec
	Perm []int
}

// enumIsoClassesPlanar: every isomorphism class on n <= 7 (quick) / 8 (thorough) vertices under 2 (4) labellings.
func enumIsoClassesPlanar(yield func(planarCase) bool) {
	idx := 0
	for n := 0; n <= sz(7, 8); n++ {
		for _, g := range oracle.IsoClasses(n) {
			idx++
			if idx%NShards != Shard {
				continue
			}
			rng := newPrng(Seed, uint64(idx))
			for r := 0; r < sz(2, 4); r++ {
				h := g
				if r > 0 {
					h = g.Induced(rng.perm(n))
				}
				c := planarCase{G: specOf(h), Expect: -1, Perm: rng.perm(n), DelEdge: -1, DelVertex: -1}
				if m := len(c.G.E); m > 0 {
					c.DelEdge = rng.intn(m)
					c.Subdivide = []int{rng.intn(m)}
				}
				if n > 0 {
					c.DelVertex = rng.intn(n)
				}
				if !yield(c) {
					return
				}
			}
		}
	}
}

func init() {
	RegisterRapid("C11_planar_constructed",
		"rapid: planar-by-construction graphs (random triangulations by face insertion + edge flips, thinned triangulations, grids, triangulated polygons (outerplanar), wheels/prisms/antiprisms, triangulations glued at a cut vertex, trees/cacti) with n <= 40 (quick; about one case in twelve up to 130) / 300 (thorough): IsPlanar must say true; the independent oracle must agree with the construction. Plus the metamorphic relations on each: 11 (thorough 31) uniform relabellings, subdividing up to 3 edges, adding pendant/isolated vertices, deleting an edge / a vertex of a planar graph, disjoint union with K4 (same answer) and with K5 (non-planar); dense, sparse and view inputs (complement of complement, a reversed induced-subgraph view, a view of a view); any panic is a violation. Non-trivial: a block with >= 5 vertices and m <= 3n-6.",
		Budget{Checks: 500, Shards: 1}, Budget{Checks: 1500, Shards: 8},
		func(t *rapid.T) planarCase { return genPlanarCase(t, sz(40, 300), 0) }, checkPlanarCase)
	RegisterRapid("C11_nonplanar_constructed",
		"rapid: a K5 or K3,3 whose edges are subdivided by 0..3 vertices, built after (and partly on branch vertices of) a planar host so that it sits at the end of the labelling, plus up to 3 arbitrary extra edges; n <= 60 (quick) / 330 (thorough): IsPlanar must say false; same metamorphic relations. Non-trivial: as above.",
		Budget{Checks: 1000, Shards: 1}, Budget{Checks: 2000, Shards: 8},
		func(t *rapid.T) planarCase { return genPlanarCase(t, sz(40, 300), 1) }, checkPlanarCase)
	RegisterRapid("C11_threshold_differential",
		"rapid: arbitrary graphs with n <= 12 (quick) / 20 (thorough) and n-2 <= m <= 3n-3 random edge insertions (around the 3n-6 threshold) against the independent path-addition (DMP) oracle, which was itself validated against networkx on 128000 graphs; same metamorphic relations. Non-trivial: as above.",
		Budget{Checks: 2000, Shards: 1}, Budget{Checks: 10000, Shards: 8},
		func(t *rapid.T) planarCase { return genPlanarCase(t, sz(12, 20), 2) }, checkPlanarCase)
	RegisterEnum("C11_all_classes_small",
		"enumeration: EVERY isomorphism class of graphs on n <= 7 (quick; 1253 classes) / n <= 8 (thorough; 13599 classes), classes produced by the oracle's own orderly extension, each under 2 (4) labellings derived from VERIF_SEED, against the oracle, with the metamorphic relations. Complete up to isomorphism for that range.",
		true, Budget{Shards: 1}, Budget{Shards: 8}, enumIsoClassesPlanar, checkPlanarCase)
}
