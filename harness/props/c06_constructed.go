package props

import (
	"fmt"
	"sort"

	"github.com/Tom-Johnston/mamba/graph"
	"github.com/Tom-Johnston/mamba/sortints"
	"pgregory.net/rapid"
	"verifharness/oracle"
)

// C06: every graph the library constructs is well formed and matches its definition.

type prodCase struct {
	Prod  string
	A, B  int
	Ints  []int
	G     GSpec
	Rep   string  // input representation for transformations
	Bytes []int   // NewDense triangle (values 0..255)
	Lists [][]int // NewSparse neighbour lists (unsorted, with repeats)
	Seed  int64
	Text  word     // DecodeAnyString: the string; Rep = "graph6" or "sparse6"
	Chain [][3]int // TransformChain: (0 = SplitEdge, 1 = Contract; i; j) applied in order
}

var prodNames = []string{"NewDense", "NewDenseNil", "NewSparse", "NewSparseNil", "Complete", "CompletePartite", "Path", "Star", "Cycle",
	"Hypercube", "FoldedHypercube", "Kneser", "BipartiteKneser", "Circulant", "CirculantBipartite", "GeneralisedPetersen",
	"Friendship", "FlowerSnark", "Rook", "RandomGraph", "RandomTree", "ComplementDense", "ComplementView", "InducedView",
	"LineGraphDense", "SplitEdge", "Contract", "PruferDecode", "MulticodeDecode", "Graph6Decode", "Sparse6Decode", "TransformChain", "DecodeAnyString", "Sparse6PairStream"}

func genProdCase(t *rapid.T) prodCase {
	c := prodCase{Prod: rapid.SampledFrom(prodNames).Draw(t, "prod"), Ints: []int{}, Bytes: []int{}, Lists: [][]int{}}
	small := func(label string, lo, hi int) int { return rapid.IntRange(lo, hi).Draw(t, label) }
	switch c.Prod {
	case "NewDense":
		c.A = small("n", 0, 8)
		c.Bytes = make([]int, c.A*(c.A-1)/2)
		for i := range c.Bytes {
			c.Bytes[i] = rapid.SampledFrom([]int{0, 0, 1, 1, 2, 255}).Draw(t, "byte")
		}
	case "NewDenseNil", "NewSparseNil", "Complete", "Path", "Star", "Friendship":
		c.A = small("n", 0, 9)
	case "NewSparse":
		c.Seed = int64(small("sortedlists", 0, 1))
		g := genAnyGraph(t, 8)
		c.G = specOf(g)
		c.Lists = make([][]int, g.N)
		for v := 0; v < g.N; v++ {
			nb := g.Nbrs(v)
			if len(nb) > 1 && c.Seed%2 == 0 { // otherwise the lists stay ascending and repeat-free, as most callers pass them
				nb = rapid.Permutation(nb).Draw(t, "shuffle")
			}
			l := append([]int{}, nb...)
			for k := small("repeats", 0, 2); k > 0 && len(nb) > 0 && c.Seed%2 == 0; k-- {
				l = append(l, nb[small("which", 0, len(nb)-1)])
			}
			c.Lists[v] = l
		}
	case "CompletePartite":
		k := small("parts", 0, 4)
		for i := 0; i < k; i++ {
			c.Ints = append(c.Ints, small("part", 0, 4))
		}
	case "Cycle":
		c.A = small("n", 3, 12)
	case "Hypercube":
		c.A = small("d", 0, 5)
	case "FoldedHypercube":
		c.A = small("d", 1, 6)
	case "Kneser", "BipartiteKneser":
		c.A = small("n", 0, 6)
		c.B = small("k", 0, c.A+1)
		if rare(t, "bigkneser", 6) {
			// ground sets beyond the table of small binomials and around one and two machine words
			c.A = rapid.SampledFrom([]int{33, 34, 35, 36, 62, 63, 64, 65, 66, 127, 128, 129}).Draw(t, "bign")
			c.B = 1
			if c.Prod == "Kneser" && c.A <= 36 || c.A <= 66 && rare(t, "k2", 4) {
				c.B = small("bigk", 1, 2)
			}
			if c.Prod == "BipartiteKneser" {
				c.B = rapid.SampledFrom([]int{1, c.A - 1, 0, c.A}).Draw(t, "bipk")
			}
		}
		if c.Prod == "BipartiteKneser" && c.B > c.A {
			c.B = c.A // n-k must be non-negative for the second side to exist
		}
	case "Circulant":
		c.A = small("n", 0, 12)
		for k := small("ndiffs", 0, 4); k > 0; k-- {
			c.Ints = append(c.Ints, small("diff", -15, 15))
		}
	case "CirculantBipartite":
		c.A = small("n", 0, 7)
		c.B = small("m", 1, 7)
		for k := small("ndiffs", 0, 4); k > 0; k-- {
			c.Ints = append(c.Ints, small("diff", -9, 9))
		}
	case "GeneralisedPetersen":
		c.A = small("n", 3, 10)
		c.B = small("k", 1, (c.A-1)/2)
	case "FlowerSnark":
		c.A = rapid.SampledFrom([]int{1, 3, 5, 7}).Draw(t, "n")
	case "Rook":
		c.A, c.B = small("a", 0, 4), small("b", 0, 4)
	case "RandomGraph":
		c.A = small("n", 0, 10)
		c.B = rapid.SampledFrom([]int{0, 100, 50, 25}).Draw(t, "p%")
		c.Seed = rapid.Int64().Draw(t, "seed")
	case "RandomTree":
		c.A = small("n", 2, 12)
		c.Seed = rapid.Int64().Draw(t, "seed")
	case "ComplementDense", "ComplementView", "LineGraphDense":
		c.G = specOf(genAnyGraph(t, 8))
		c.Rep = rapid.SampledFrom(repNames).Draw(t, "rep")
	case "InducedView":
		g := genAnyGraph(t, 8)
		if rapid.IntRange(0, 3).Draw(t, "bighost") == 0 {
			// a few vertices of a large dense-ish host (host degrees many times the size of V)
			n := small("hostn", 20, 44)
			g = oracle.New(n)
			for j := 0; j < n; j++ {
				for i := 0; i < j; i++ {
					if small("he", 0, 3) != 0 {
						g.Add(i, j)
					}
				}
			}
			c.G = specOf(g)
			c.Rep = rapid.SampledFrom([]string{"dense", "sparse"}).Draw(t, "rep")
			for k := small("vsize", 1, 5); k > 0; k-- {
				v := small("vv", 0, n-1)
				dup := false
				for _, x := range c.Ints {
					if x == v {
						dup = true
					}
				}
				if !dup {
					c.Ints = append(c.Ints, v)
				}
			}
			return c
		}
		c.G = specOf(g)
		c.Rep = rapid.SampledFrom(repNames).Draw(t, "rep")
		c.Ints = genSubsetInAnyOrder(t, g.N)
	case "SplitEdge", "Contract":
		g := genAnyGraph(t, 8)
		if g.N < 2 {
			g = mPath(2)
		}
		c.G = specOf(g)
		c.A = small("i", 0, g.N-1)
		c.B = small("j", 0, g.N-2)
		if c.B >= c.A {
			c.B++
		}
	case "TransformChain":
		g := genAnyGraph(t, 8)
		if g.N < 2 {
			g = mPath(3)
		}
		c.G = specOf(g)
		n := g.N
		for k := small("chainlen", 2, 6); k > 0 && n >= 2; k-- {
			op := small("op", 0, 1)
			i := small("ci", 0, n-1)
			j := small("cj", 0, n-2)
			if j >= i {
				j++
			}
			c.Chain = append(c.Chain, [3]int{op, i, j})
			if op == 0 {
				n++
			} else {
				n--
			}
		}
	case "DecodeAnyString":
		dc := genDecodeCase(t)
		c.Text, c.Rep = dc.S, dc.Format
	case "Sparse6PairStream":
		// a syntactically valid sparse6 stream of arbitrary (b, x) pairs: loops, repeated edges, jumps past n
		n := small("n", 1, 20)
		k := 0
		for x := n - 1; x > 0; x >>= 1 {
			k++
		}
		bits := []int{}
		for p := small("pairs", 0, 14); p > 0; p-- {
			bits = append(bits, small("b", 0, 1))
			x := small("x", 0, (1<<uint(k))-1)
			for r := k - 1; r >= 0; r-- {
				bits = append(bits, x>>uint(r)&1)
			}
		}
		for len(bits)%6 != 0 {
			bits = append(bits, 1)
		}
		out := []byte{':', byte(n + 63)}
		for i := 0; i < len(bits); i += 6 {
			v := 0
			for _, b := range bits[i : i+6] {
				v = v<<1 | b
			}
			out = append(out, byte(v+63))
		}
		c.Text, c.Rep = word(out), "sparse6"
		c.Prod = "DecodeAnyString"
	case "PruferDecode":
		n := small("n", 2, 10)
		for i := 0; i < n-2; i++ {
			c.Ints = append(c.Ints, small("code", 0, n-1))
		}
	case "MulticodeDecode", "Graph6Decode", "Sparse6Decode":
		if rapid.Bool().Draw(t, "larger") {
			// beyond one byte of index arithmetic and beyond the 1-byte size field
			n := rapid.SampledFrom([]int{15, 16, 17, 18, 19, 24, 31, 32, 33, 40, 62, 63, 64, 70}).Draw(t, "n")
			c.G = specOf(codecCase{N: n, Dens: rapid.SampledFrom([]int{1, 4, 8}).Draw(t, "dens"), Seed: rapid.Uint64().Draw(t, "gseed")}.Model())
		} else {
			c.G = specOf(genAnyGraph(t, 9))
		}
	}
	return c
}

func colexSubsets(n, k int) [][]int {
	s := subsetsOfSize(n, k)
	sort.SliceStable(s, func(a, b int) bool { return colexLess(s[a], s[b]) })
	return s
}

func isSubset(a, b []int) bool { // a subset of b
	return intersects(a, b) == len(a)
}

func checkProdCase(c prodCase, rec *Rec) error {
	rec.Label(c.Prod)
	var got graph.Graph
	var want *oracle.G
	desc := fmt.Sprintf("%s(A=%d,B=%d,Ints=%v)", c.Prod, c.A, c.B, c.Ints)
	build := func(f func()) error {
		if p := try(f); p != nil {
			return fmt.Errorf("%s panicked: %v", desc, p)
		}
		return nil
	}
	var err error
	switch c.Prod {
	case "NewDense":
		n := c.A
		b := make([]byte, len(c.Bytes))
		want = oracle.New(n)
		idx := 0
		for j := 0; j < n; j++ {
			for i := 0; i < j; i++ {
				b[idx] = byte(c.Bytes[idx])
				if b[idx] > 0 {
					want.Add(i, j)
				}
				idx++
			}
		}
		// the slice lives in a larger array of the caller's (spare capacity behind it, filled with a marker)
		arena := make([]byte, len(b), len(b)+40)
		copy(arena, b)
		for i := len(b); i < cap(arena); i++ {
			arena[:cap(arena)][i] = 0xEE
		}
		b = arena
		var d, d2 *graph.DenseGraph
		if err = build(func() { d = graph.NewDense(n, b); d2 = graph.NewDense(n, b) }); err != nil {
			return err
		}
		if err = sameAs(desc, d, want); err != nil {
			return err
		}
		for i := range b { // the caller changes its slice afterwards
			b[i] = 1 - b[i]&1
		}
		if err = sameAs(desc+" after the caller modified the slice it passed in", d, want); err != nil {
			return err
		}
		// two graphs made from the same slice grow independently, and neither grows into the caller's array
		w1, w2 := want.Copy(), want.Copy()
		all := make([]int, n)
		for i := range all {
			all[i] = i
		}
		if err = build(func() {
			d.AddVertex(all)
			d2.AddVertex([]int{})
			d.AddVertex([]int{0})
			d2.AddVertex([]int{d2.N() - 1})
		}); err != nil {
			return err
		}
		w1.AddVertex(all)
		w2.AddVertex(nil)
		w1.AddVertex([]int{0})
		w2.AddVertex([]int{w2.N - 1})
		if err = sameAs(desc+" grown by two vertices (first of two graphs made from one slice)", d, w1); err != nil {
			return err
		}
		if err = sameAs(desc+" grown by two vertices (second of two graphs made from one slice)", d2, w2); err != nil {
			return err
		}
		for i := len(b); i < cap(arena); i++ {
			if arena[:cap(arena)][i] != 0xEE {
				return fmt.Errorf("%s: growing the graph wrote into the caller's array behind the slice it passed in (offset %d)", desc, i)
			}
		}
		rec.NonTrivial(want.M() > 0 || n <= 1)
		return nil
	case "NewDenseNil":
		want = oracle.New(c.A)
		if err = build(func() { got = graph.NewDense(c.A, nil) }); err != nil {
			return err
		}
	case "NewSparseNil":
		want = oracle.New(c.A)
		if err = build(func() { got = graph.NewSparse(c.A, nil) }); err != nil {
			return err
		}
	case "NewSparse":
		want = c.G.Model()
		lists := make([]sortints.SortedInts, len(c.Lists))
		for i := range lists {
			lists[i] = append([]int{}, c.Lists[i]...)
		}
		var s *graph.SparseGraph
		if err = build(func() { s = graph.NewSparse(want.N, lists) }); err != nil {
			return err
		}
		for i := range lists {
			if !eqInts(lists[i], c.Lists[i]) {
				return fmt.Errorf("%s modified the neighbour list of %d", desc, i)
			}
		}
		if err = sameAs(desc, s, want); err != nil {
			return err
		}
		for i := range lists {
			for j := range lists[i] {
				lists[i][j] = 0
			}
		}
		if err = sameAs(desc+" after the caller modified the lists it passed in", s, want); err != nil {
			return err
		}
		rec.NonTrivial(want.M() > 0 || want.N <= 1)
		return nil
	case "Complete":
		want = mComplete(c.A)
		err = build(func() { got = graph.CompleteGraph(c.A) })
	case "CompletePartite":
		want = mCompleteMultipartite(c.Ints)
		err = build(func() { got = graph.CompletePartiteGraph(c.Ints...) })
	case "Path":
		want = mPath(c.A)
		err = build(func() { got = graph.Path(c.A) })
	case "Star":
		want = oracle.New(c.A)
		for i := 1; i < c.A; i++ {
			want.Add(0, i)
		}
		err = build(func() { got = graph.Star(c.A) })
	case "Cycle":
		want = mCycle(c.A)
		err = build(func() { got = graph.Cycle(c.A) })
	case "Hypercube":
		want = mHypercube(c.A)
		err = build(func() { got = graph.HypercubeGraph(c.A) })
	case "FoldedHypercube":
		want = mHypercube(c.A - 1)
		mask := 1<<uint(c.A-1) - 1
		for i := 0; i <= mask; i++ {
			want.Add(i, mask&^i)
		}
		err = build(func() { got = graph.FoldedHypercubeGraph(c.A) })
	case "Kneser":
		s := colexSubsets(c.A, c.B)
		want = oracle.New(len(s))
		for i := range s {
			for j := 0; j < i; j++ {
				if intersects(s[i], s[j]) == 0 {
					want.Add(i, j)
				}
			}
		}
		err = build(func() { got = graph.KneserGraph(c.A, c.B) })
	case "BipartiteKneser":
		s1, s2 := colexSubsets(c.A, c.B), colexSubsets(c.A, c.A-c.B)
		want = oracle.New(len(s1) + len(s2))
		for i := range s1 {
			for j := range s2 {
				if isSubset(s1[i], s2[j]) || isSubset(s2[j], s1[i]) {
					want.Add(i, len(s1)+j)
				}
			}
		}
		err = build(func() { got = graph.BipartiteKneserGraph(c.A, c.B) })
	case "Circulant":
		want = oracle.New(c.A)
		if c.A > 0 {
			want = mCirculant(c.A, c.Ints)
		}
		err = build(func() { got = graph.CirculantGraph(c.A, c.Ints...) })
	case "CirculantBipartite":
		n, m := c.A, c.B
		want = oracle.New(n + m)
		for i := 0; i < n; i++ {
			for _, d := range c.Ints {
				want.Add(i, n+((i+d)%m+m)%m)
			}
		}
		err = build(func() { got = graph.CirculantBipartiteGraph(n, m, c.Ints...) })
	case "GeneralisedPetersen":
		want = mGenPetersen(c.A, c.B)
		err = build(func() { got = graph.GeneralisedPetersenGraph(c.A, c.B) })
	case "Friendship":
		want = oracle.New(2*c.A + 1)
		for i := 0; i < c.A; i++ {
			want.Add(0, 2*i+1)
			want.Add(0, 2*i+2)
			want.Add(2*i+1, 2*i+2)
		}
		err = build(func() { got = graph.FriendshipGraph(c.A) })
	case "FlowerSnark":
		n := c.A
		want = oracle.New(4 * n)
		for i := 0; i < n; i++ {
			a := 4 * i
			want.Add(a, a+1)
			want.Add(a, a+2)
			want.Add(a, a+3)
			nx := 4 * ((i + 1) % n)
			want.Add(a+1, nx+1) // the n-cycle on the b's
			if i < n-1 {
				want.Add(a+2, nx+2) // the 2n-cycle c_0..c_{n-1} d_0..d_{n-1}
				want.Add(a+3, nx+3)
			} else {
				want.Add(a+2, 3)
				want.Add(a+3, 2)
			}
		}
		err = build(func() { got = graph.FlowerSnark(n) })
		if err == nil && n == 1 {
			// n = 1 is odd, hence accepted, but the construction degenerates (the cycles collapse) and no definition says
			// what the result should be: only well-formedness is required (M and Degrees must agree with the adjacency)
			_, werr := wellFormed(desc, got)
			rec.NonTrivial(true)
			return werr
		}
	case "Rook":
		// no vertex order is documented: compare up to isomorphism with the rook's-move definition
		var d *graph.DenseGraph
		if err = build(func() { d = graph.RookGraph(c.A, c.B) }); err != nil {
			return err
		}
		m, werr := wellFormed(desc, d)
		if werr != nil {
			return werr
		}
		ref := mRook(c.A, c.B)
		if m.N != ref.N || oracle.Canon(m) != oracle.Canon(ref) {
			return fmt.Errorf("%s is not isomorphic to the %dx%d rook's graph: n=%d edges %v", desc, c.A, c.B, m.N, clipEdges(m))
		}
		rec.NonTrivial(true)
		return nil
	case "RandomGraph":
		p := float64(c.B) / 100
		var d1, d2 *graph.DenseGraph
		if err = build(func() { d1 = graph.RandomGraph(c.A, p, c.Seed); d2 = graph.RandomGraph(c.A, p, c.Seed) }); err != nil {
			return err
		}
		m1, werr := wellFormed(desc, d1)
		if werr != nil {
			return werr
		}
		m2, werr := wellFormed(desc, d2)
		if werr != nil {
			return werr
		}
		if !m1.Equal(m2) {
			return fmt.Errorf("%s: the same seed gave two different graphs", desc)
		}
		if c.B == 0 && m1.M() != 0 {
			return fmt.Errorf("%s with p=0 has edges", desc)
		}
		if c.B == 100 && m1.M() != c.A*(c.A-1)/2 {
			return fmt.Errorf("%s with p=1 is not complete", desc)
		}
		rec.NonTrivial(true)
		return nil
	case "RandomTree":
		var d *graph.DenseGraph
		if err = build(func() { d = graph.RandomTree(c.A, c.Seed) }); err != nil {
			return err
		}
		m, werr := wellFormed(desc, d)
		if werr != nil {
			return werr
		}
		if m.N != c.A || !oracle.IsTree(m) {
			return fmt.Errorf("%s is not a tree on %d vertices: n=%d edges %v", desc, c.A, m.N, clipEdges(m))
		}
		rec.NonTrivial(true)
		return nil
	case "ComplementDense":
		g := c.G.Model()
		want = g.Complement()
		in := repOf(g, c.Rep)
		err = build(func() { got = graph.ComplementDense(in) })
	case "ComplementView":
		g := c.G.Model()
		d := denseOf(g)
		var view graph.Graph
		// reading a view must not disturb the graph underneath, whatever its representation, and reading it again gives the same
		for bname, base := range map[string]graph.Graph{"dense": denseOf(g), "sparse": sparseOf(g), "dense-bytes": repOf(g, "dense-bytes")} {
			var v graph.Graph
			if err = build(func() { v = graph.Complement(base) }); err != nil {
				return err
			}
			for round := 0; round < 2; round++ {
				if err = sameAs(fmt.Sprintf("%s over a %s graph (read #%d)", desc, bname, round+1), v, g.Complement()); err != nil {
					return err
				}
				if err = sameAs(fmt.Sprintf("the %s graph under a Complement view after the view was read", bname), base, g); err != nil {
					return err
				}
			}
		}
		if err = build(func() { view = graph.Complement(d) }); err != nil {
			return err
		}
		if err = sameAs(desc, view, g.Complement()); err != nil {
			return err
		}
		// live: editing the underlying graph changes the view
		if g.N >= 2 {
			if g.Has(0, 1) {
				d.RemoveEdge(0, 1)
				g.Del(0, 1)
			} else {
				d.AddEdge(0, 1)
				g.Add(0, 1)
			}
			if err = sameAs(desc+" after editing the underlying graph", view, g.Complement()); err != nil {
				return err
			}
			// the underlying graph gains a vertex and loses one: the view follows
			nb := []int{0}
			if p := try(func() { d.AddVertex(nb) }); p != nil {
				return fmt.Errorf("%s: AddVertex on the underlying graph panicked: %v", desc, p)
			}
			g.AddVertex(nb)
			if err = sameAs(desc+" after the underlying graph gained a vertex", view, g.Complement()); err != nil {
				return err
			}
			if p := try(func() { d.RemoveVertex(1) }); p != nil {
				return fmt.Errorf("%s: RemoveVertex on the underlying graph panicked: %v", desc, p)
			}
			g.RemoveVertex(1)
			if err = sameAs(desc+" after the underlying graph lost vertex 1", view, g.Complement()); err != nil {
				return err
			}
		}
		rec.NonTrivial(g.N >= 2)
		return nil
	case "InducedView":
		g := c.G.Model()
		var under graph.EditableGraph = denseOf(g)
		if c.Rep == "sparse" {
			under = sparseOf(g)
		}
		var base graph.Graph = under
		V := append([]int{}, c.Ints...)
		var view graph.Graph
		if err = build(func() { view = graph.InducedSubgraph(base, V) }); err != nil {
			return err
		}
		if err = sameAs(desc, view, g.Induced(c.Ints)); err != nil {
			return err
		}
		if !eqInts(V, c.Ints) {
			return fmt.Errorf("%s modified V", desc)
		}
		if len(c.Ints) >= 2 {
			a, b := c.Ints[0], c.Ints[1]
			if g.Has(a, b) {
				under.RemoveEdge(a, b)
				g.Del(a, b)
			} else {
				under.AddEdge(a, b)
				g.Add(a, b)
			}
			if err = sameAs(desc+" after editing the underlying graph", view, g.Induced(c.Ints)); err != nil {
				return err
			}
			// the host gains a vertex joined to some vertices of V (as SplitEdge would do) and loses it again: the view keeps
			// showing the subgraph induced on V
			nb := []int{c.Ints[0]}
			if c.Ints[1] != c.Ints[0] {
				nb = append(nb, c.Ints[1])
			}
			sort.Ints(nb)
			if p := try(func() { under.AddVertex(nb) }); p != nil {
				return fmt.Errorf("%s: AddVertex on the host panicked: %v", desc, p)
			}
			if err = sameAs(desc+" after the underlying graph gained a vertex", view, g.Induced(c.Ints)); err != nil {
				return err
			}
			if p := try(func() { under.RemoveVertex(under.N() - 1) }); p != nil {
				return fmt.Errorf("%s: RemoveVertex on the host panicked: %v", desc, p)
			}
			if err = sameAs(desc+" after the underlying graph lost the new vertex again", view, g.Induced(c.Ints)); err != nil {
				return err
			}
		}
		rec.NonTrivial(len(c.Ints) >= 2)
		return nil
	case "LineGraphDense":
		g := c.G.Model()
		es := g.Edges() // (j,i) order: 01, 02, 12, 03, ...
		want = oracle.New(len(es))
		for a := range es {
			for b := 0; b < a; b++ {
				if es[a][0] == es[b][0] || es[a][0] == es[b][1] || es[a][1] == es[b][0] || es[a][1] == es[b][1] {
					want.Add(a, b)
				}
			}
		}
		in := repOf(g, c.Rep)
		err = build(func() { got = graph.LineGraphDense(in) })
	case "SplitEdge", "Contract":
		g := c.G.Model()
		want = g.Copy()
		if c.Prod == "SplitEdge" {
			want.Del(c.A, c.B)
			want.AddVertex([]int{c.A, c.B})
		} else {
			for _, v := range g.Nbrs(c.B) {
				want.Add(c.A, v)
			}
			want.RemoveVertex(c.B)
		}
		targets := map[string]graph.EditableGraph{}
		for _, how := range buildWays {
			bd, bs, berr := builtBy(how, g)
			if berr != nil {
				return berr
			}
			targets["dense/"+how], targets["sparse/"+how] = bd, bs
		}
		for name, eg := range targets {
			if p := try(func() {
				if c.Prod == "SplitEdge" {
					graph.SplitEdge(eg, c.A, c.B)
				} else {
					graph.Contract(eg, c.A, c.B)
				}
			}); p != nil {
				return fmt.Errorf("%s on a %s graph %v panicked: %v", desc, name, c.G, p)
			}
			if err = sameAs(fmt.Sprintf("%s on the %s graph %v", desc, name, c.G), eg, want); err != nil {
				return err
			}
		}
		rec.NonTrivial(g.M() > 0)
		return nil
	case "TransformChain":
		g := c.G.Model()
		for _, how := range buildWays {
			bd, bs, berr := builtBy(how, g)
			if berr != nil {
				return berr
			}
			for name, eg := range map[string]graph.EditableGraph{"dense/" + how: bd, "sparse/" + how: bs} {
				m := g.Copy()
				for step, op := range c.Chain {
					if op[1] >= m.N || op[2] >= m.N || op[1] == op[2] {
						break
					}
					if p := try(func() {
						if op[0] == 0 {
							graph.SplitEdge(eg, op[1], op[2])
						} else {
							graph.Contract(eg, op[1], op[2])
						}
					}); p != nil {
						return fmt.Errorf("chain %v on the %s graph %v panicked at step %d: %v", c.Chain, name, c.G, step, p)
					}
					if op[0] == 0 {
						m.Del(op[1], op[2])
						m.AddVertex([]int{op[1], op[2]})
					} else {
						for _, v := range m.Nbrs(op[2]) {
							m.Add(op[1], v)
						}
						m.RemoveVertex(op[2])
					}
					if err = sameAs(fmt.Sprintf("after step %d of the SplitEdge/Contract chain %v on the %s graph %v", step, c.Chain, name, c.G), eg, m); err != nil {
						return err
					}
				}
			}
		}
		rec.NonTrivial(len(c.Chain) >= 2)
		return nil
	case "DecodeAnyString":
		// whatever string a decoder accepts, the graph it returns must be well formed
		s := string(c.Text)
		if n, ok := declaredSize(c.Rep, []byte(s)); ok && n > maxDeclaredN {
			return nil
		}
		var derr error
		var gr graph.Graph
		if p := try(func() {
			if c.Rep == "graph6" {
				var d *graph.DenseGraph
				d, derr = graph.Graph6Decode(s)
				gr = d
			} else {
				var d *graph.SparseGraph
				d, derr = graph.Sparse6Decode(s)
				gr = d
			}
		}); p != nil {
			return nil // totality of the decoders is C08's business
		}
		if derr != nil {
			rec.Label("decode-any-rejected")
			return nil
		}
		rec.Label("decode-any-accepted")
		rec.NonTrivial(gr.N() >= 2)
		if gr.N() > 300 {
			return nil
		}
		_, werr := wellFormed(fmt.Sprintf("%sDecode(%q)", c.Rep, s), gr)
		return werr
	case "PruferDecode":
		want = oracle.RefPruferDecode(c.Ints)
		code := append([]int{}, c.Ints...)
		err = build(func() { got = graph.PruferDecode(code) })
		if err == nil && !eqInts(code, c.Ints) {
			return fmt.Errorf("%s modified its argument", desc)
		}
	case "MulticodeDecode":
		want = c.G.Model()
		enc := oracle.RefMulticode(want)
		desc = fmt.Sprintf("MulticodeDecode(%v)", enc)
		err = build(func() { got = graph.MulticodeDecode(enc) })
	case "Graph6Decode":
		want = c.G.Model()
		enc := oracle.RefGraph6(want)
		desc = fmt.Sprintf("Graph6Decode(%q)", enc)
		var derr error
		err = build(func() { got, derr = graph.Graph6Decode(enc) })
		if err == nil && derr != nil {
			return fmt.Errorf("%s returned error %v for a valid encoding", desc, derr)
		}
	case "Sparse6Decode":
		want = c.G.Model()
		enc := oracle.RefSparse6(want)
		desc = fmt.Sprintf("Sparse6Decode(%q)", enc)
		var derr error
		err = build(func() { got, derr = graph.Sparse6Decode(enc) })
		if err == nil && derr != nil {
			return fmt.Errorf("%s returned error %v for a valid encoding", desc, derr)
		}
	default:
		return fmt.Errorf("harness: unknown producer %q", c.Prod)
	}
	if err != nil {
		return err
	}
	rec.NonTrivial(want.M() > 0 || want.N <= 1)
	return sameAs(desc, got, want)
}

func enumProdBoundaries(yield func(prodCase) bool) {
	e := func(c prodCase) bool {
		if c.Ints == nil {
			c.Ints = []int{}
		}
		c.Bytes, c.Lists = []int{}, [][]int{}
		return yield(c)
	}
	for n := 0; n <= 7; n++ {
		for _, p := range []string{"NewDenseNil", "NewSparseNil", "Complete", "Path", "Star", "Friendship"} {
			if !e(prodCase{Prod: p, A: n}) {
				return
			}
		}
		if n >= 3 && !e(prodCase{Prod: "Cycle", A: n}) {
			return
		}
		if n <= 5 && !e(prodCase{Prod: "Hypercube", A: n}) {
			return
		}
		if n >= 1 && n <= 6 && !e(prodCase{Prod: "FoldedHypercube", A: n}) {
			return
		}
		for k := 0; k <= n+1; k++ {
			if n <= 6 && !e(prodCase{Prod: "Kneser", A: n, B: k}) {
				return
			}
			if n <= 6 && k <= n && !e(prodCase{Prod: "BipartiteKneser", A: n, B: k}) {
				return
			}
		}
		for k := 1; n >= 3 && k <= (n-1)/2; k++ {
			if !e(prodCase{Prod: "GeneralisedPetersen", A: n, B: k}) {
				return
			}
		}
		for b := 0; b <= 4 && n <= 4; b++ {
			if !e(prodCase{Prod: "Rook", A: n, B: b}) {
				return
			}
		}
		for a := 0; a <= 3; a++ {
			for b := 0; b <= 3; b++ {
				if n <= 3 && !e(prodCase{Prod: "CompletePartite", Ints: []int{n, a, b}}) {
					return
				}
			}
		}
	}
	for _, n := range []int{1, 3, 5, 7} {
		if !e(prodCase{Prod: "FlowerSnark", A: n}) {
			return
		}
	}
}

func init() {
	RegisterRapid("C06_producers",
		"rapid: one of 31 producers with generated parameters: NewDense (bytes 0,1,2,255; caller mutates the slice afterwards), NewSparse (unsorted lists with repeats; caller mutates afterwards), nil variants, the named families at sizes 0..12 incl. every smallest size (definitions re-implemented in the harness; Kneser/BipartiteKneser in colex vertex order per the doc comments, Rook up to isomorphism), RandomGraph (p in {0,1,.25,.5}: determinism per seed, empty/complete), RandomTree, ComplementDense / Complement view / InducedSubgraph view (views also re-read after editing the underlying graph), LineGraphDense, SplitEdge and Contract on both representations, PruferDecode, MulticodeDecode, Graph6Decode, Sparse6Decode on reference encodings; chains of 2..6 SplitEdge/Contract steps on graphs built four ways; and the decoders on arbitrary accepted strings (the C08 string generator plus syntactically valid sparse6 streams of arbitrary (b,x) pairs with loops, repeats and jumps), whose results must be well formed. Every result must pass the well-formedness predicate (IsEdge symmetric and loop-free, M, Degrees, ascending Neighbours consistent, no panic) and equal the definition. Non-trivial: result has an edge or is one of the smallest sizes.",
		Budget{Checks: 5000, Shards: 1}, Budget{Checks: 400000, Shards: 16}, genProdCase, checkProdCase)
	RegisterEnum("C06_boundaries",
		"enumeration: every parameter-only family at every size 0..7 (Cycle >= 3, Hypercube <= 5, FoldedHypercube 1..6, Kneser/BipartiteKneser all k <= n+1 / k <= n for n <= 6, GeneralisedPetersen all valid k, Rook a,b <= 4, CompletePartite with three parts of size 0..3, FlowerSnark 3,5,7). Complete for that family.",
		true, Budget{Shards: 1}, Budget{Shards: 1}, enumProdBoundaries, checkProdCase)
}
