package props

import (
	"bytes"
	"encoding/gob"
	"encoding/hex"
	"encoding/json"
	"fmt"
	"sort"
	"strings"

	"github.com/Tom-Johnston/mamba/dawg"
	"pgregory.net/rapid"
)

// C12 (build), C13 (search), C14 (serialisation) of the DAWG.

// word is a byte string; in JSON it is written as plain text when printable ASCII and as "hex:.." otherwise,
// so that every byte value survives a replay file.
type word string

func (w word) MarshalJSON() ([]byte, error) {
	plain := !strings.HasPrefix(string(w), "hex:")
	for i := 0; i < len(w); i++ {
		if w[i] < 0x20 || w[i] > 0x7e {
			plain = false
		}
	}
	if plain {
		return json.Marshal(string(w))
	}
	return json.Marshal("hex:" + hex.EncodeToString([]byte(w)))
}

func (w *word) UnmarshalJSON(b []byte) error {
	var s string
	if err := json.Unmarshal(b, &s); err != nil {
		return err
	}
	if strings.HasPrefix(s, "hex:") {
		raw, err := hex.DecodeString(s[4:])
		if err != nil {
			return err
		}
		*w = word(raw)
		return nil
	}
	*w = word(s)
	return nil
}

func genAlphabet(t *rapid.T) []byte {
	switch rapid.IntRange(0, 9).Draw(t, "alpha") {
	case 0:
		return []byte{'a'}
	case 1, 2:
		return []byte{'a', 'b'}
	case 3, 4, 5:
		return []byte{'a', 'b', 'c'}
	case 6, 7:
		return []byte{'a', 'b', 'c', 'd'}
	case 8:
		return []byte{0, 1, 0x7f, 0x80, 0xff}
	default:
		all := make([]byte, 256)
		for i := range all {
			all[i] = byte(i)
		}
		return all
	}
}

func genWordOver(t *rapid.T, alpha []byte, maxLen int) word {
	n := rapid.IntRange(0, maxLen).Draw(t, "wlen")
	b := make([]byte, n)
	for i := range b {
		b[i] = alpha[rapid.IntRange(0, len(alpha)-1).Draw(t, "ch")]
	}
	return word(b)
}

func genWordSet(t *rapid.T, alpha []byte, maxWords, maxLen int) []word {
	n := rapid.IntRange(0, maxWords).Draw(t, "nwords")
	set := map[word]bool{}
	for i := 0; i < n; i++ {
		w := genWordOver(t, alpha, maxLen)
		// bias towards shared prefixes and suffixes: sometimes extend / prepend to an existing word
		if len(set) > 0 && rapid.IntRange(0, 2).Draw(t, "derive") == 0 {
			keys := sortedWords(set)
			base := keys[rapid.IntRange(0, len(keys)-1).Draw(t, "base")]
			switch rapid.IntRange(0, 2).Draw(t, "how") {
			case 0: // same prefix, new tail
				cut := rapid.IntRange(0, len(base)).Draw(t, "cut")
				w = base[:cut] + w
			case 1: // same suffix, new head
				cut := rapid.IntRange(0, len(base)).Draw(t, "cut")
				w = w + base[cut:]
			case 2: // extension
				w = base + w
			}
			if len(w) > maxLen+2 {
				w = w[:maxLen+2]
			}
		}
		set[w] = true
	}
	return sortedWords(set)
}

func sortedWords(set map[word]bool) []word {
	r := make([]word, 0, len(set))
	for w := range set {
		r = append(r, w)
	}
	sort.Slice(r, func(i, j int) bool { return r[i] < r[j] }) // byte-wise, same as bytes.Compare
	return r
}

// minimalDFASize = number of distinct residual languages of the prefixes of the words (at least 1: the root).
// Computed on the trie of the words: two trie nodes have the same residual language iff they agree on finality and,
// label by label, their children do; signatures are numbered bottom-up.
func minimalDFASize(words []word) int {
	type tnode struct {
		final bool
		kids  map[byte]*tnode
	}
	root := &tnode{kids: map[byte]*tnode{}}
	for _, w := range words {
		n := root
		for i := 0; i < len(w); i++ {
			c := n.kids[w[i]]
			if c == nil {
				c = &tnode{kids: map[byte]*tnode{}}
				n.kids[w[i]] = c
			}
			n = c
		}
		n.final = true
	}
	ids := map[string]int{}
	var sig func(n *tnode) int
	sig = func(n *tnode) int {
		labels := make([]int, 0, len(n.kids))
		for c := range n.kids {
			labels = append(labels, int(c))
		}
		sort.Ints(labels)
		var sb strings.Builder
		fmt.Fprintf(&sb, "%v", n.final)
		for _, c := range labels {
			fmt.Fprintf(&sb, "|%d>%d", c, sig(n.kids[byte(c)]))
		}
		k := sb.String()
		if id, ok := ids[k]; ok {
			return id
		}
		ids[k] = len(ids)
		return ids[k]
	}
	sig(root)
	return len(ids)
}

// checkAutomaton validates a finished Dawg against the sorted word list through the exported API and the node dump.
func checkAutomaton(d *dawg.Dawg, words []word, probes []word) error {
	if d == nil {
		return fmt.Errorf("nil Dawg")
	}
	if got := d.NumberOfWords(); got != len(words) {
		return fmt.Errorf("NumberOfWords() = %d want %d (words %q)", got, len(words), words)
	}
	member := map[word]int{}
	for i, w := range words {
		member[w] = i
	}
	// all lookups go through ONE buffer that is overwritten in place, members and non-members interleaved (a caller
	// scanning a text would do the same)
	buf := make([]byte, 0, 64)
	pi := 0
	for i, w := range words {
		buf = append(buf[:0], w...)
		idx, ok := d.Lookup(buf)
		if !ok || idx != i {
			return fmt.Errorf("Lookup(%q) = (%d,%v) want (%d,true) (words %q)", w, idx, ok, i, clipWords(words))
		}
		for k := 0; k < 2 && pi < len(probes); k, pi = k+1, pi+1 {
			p := probes[pi]
			if _, in := member[p]; in {
				continue
			}
			buf = append(buf[:0], p...)
			if idx, ok := d.Lookup(buf); ok {
				return fmt.Errorf("Lookup(%q) = (%d,true) but the word is not in the set %q", p, idx, clipWords(words))
			}
		}
	}
	for ; pi < len(probes); pi++ {
		p := probes[pi]
		if _, in := member[p]; in {
			continue
		}
		buf = append(buf[:0], p...)
		if idx, ok := d.Lookup(buf); ok {
			return fmt.Errorf("Lookup(%q) = (%d,true) but the word is not in the set %q", p, idx, clipWords(words))
		}
	}
	nodes := d.VerifNodes()
	if want := minimalDFASize(words); len(nodes) != want {
		return fmt.Errorf("automaton has %d nodes, the minimal automaton of %q has %d", len(nodes), words, want)
	}
	// right-language sizes, by memoised recursion on the acyclic node graph
	size := make([]int, len(nodes))
	done := make([]int, len(nodes)) // 0 new, 1 in progress, 2 done
	var count func(i int) (int, error)
	count = func(i int) (int, error) {
		if done[i] == 2 {
			return size[i], nil
		}
		if done[i] == 1 {
			return 0, fmt.Errorf("automaton has a cycle through node %d", i)
		}
		done[i] = 1
		s := 0
		if nodes[i].Final {
			s = 1
		}
		for _, tgt := range nodes[i].Targets {
			c, err := count(tgt)
			if err != nil {
				return 0, err
			}
			s += c
		}
		size[i], done[i] = s, 2
		return s, nil
	}
	sig := map[string]int{}
	for i, nd := range nodes {
		c, err := count(i)
		if err != nil {
			return err
		}
		if nd.NumWords != c {
			return fmt.Errorf("node %d stores numWords=%d but %d words pass through it (words %q)", i, nd.NumWords, c, words)
		}
		if len(nd.Labels) != len(nd.Targets) {
			return fmt.Errorf("node %d has %d labels and %d links", i, len(nd.Labels), len(nd.Targets))
		}
		for j := 1; j < len(nd.Labels); j++ {
			if nd.Labels[j-1] >= nd.Labels[j] {
				return fmt.Errorf("node %d link labels not strictly ascending: %v", i, nd.Labels)
			}
		}
		s := fmt.Sprintf("%v|%v|%v", nd.Final, nd.Labels, nd.Targets)
		if j, dup := sig[s]; dup {
			return fmt.Errorf("nodes %d and %d are equivalent (not minimal)", j, i)
		}
		sig[s] = i
	}
	return nil
}

func clipWords(w []word) []word {
	if len(w) > 40 {
		return w[:40]
	}
	return w
}

func probesFor(words []word, extra []word) []word {
	set := map[word]bool{}
	for _, w := range words {
		for i := 0; i <= len(w); i++ {
			set[w[:i]] = true // prefixes
		}
		set[w+"a"] = true
		set[w+"\x00"] = true
		if len(w) > 0 {
			b := []byte(w)
			b[len(b)-1]++
			set[word(b)] = true
			b[len(b)-1] -= 2
			set[word(b)] = true
			b2 := []byte(w)
			b2[0] ^= 1
			set[word(b2)] = true
		}
	}
	for _, e := range extra {
		set[e] = true
	}
	return sortedWords(set)
}

// ---- C12 ----------------------------------------------------------------------------------

type addStep struct {
	W      word
	NilArg bool // pass nil instead of an empty slice for the empty word
}

type buildCase struct {
	Steps  []addStep
	Probes []word
	// HugeN > 0: the steps are HugeN seed-derived random words of 8..10 letters over a..z in sorted order, with a
	// duplicate or an out-of-order word spliced in every few thousand steps (more than 65536 nodes and register entries)
	HugeN    int    `json:",omitempty"`
	HugeSeed uint64 `json:",omitempty"`
}

func (c buildCase) steps() []addStep {
	if c.HugeN == 0 {
		return c.Steps
	}
	set := map[word]bool{}
	for i := 0; i < c.HugeN; i++ {
		h := hashPrefix(c.HugeSeed, []int{i})
		b := make([]byte, 8+int(h%3))
		for j := range b {
			h = h*6364136223846793005 + 1442695040888963407
			b[j] = 'a' + byte((h>>33)%26)
		}
		set[word(b)] = true
	}
	ws := sortedWords(set)
	steps := make([]addStep, 0, len(ws)+64)
	for i, w := range ws {
		steps = append(steps, addStep{W: w})
		switch {
		case i%3001 == 17:
			steps = append(steps, addStep{W: w}) // duplicate
		case i%4001 == 19:
			steps = append(steps, addStep{W: ws[i/2]}) // out of order
		}
	}
	return steps
}

func genBuildCase(t *rapid.T) buildCase {
	alpha := genAlphabet(t)
	words := genWordSet(t, alpha, sz(12, 40), 5)
	switch rapid.IntRange(0, 12).Draw(t, "buildshape") {
	case 0: // many words over a tiny alphabet: hundreds of register entries, many equivalent and near-equivalent nodes
		alpha = []byte{'a', 'b'}
		if rapid.Bool().Draw(t, "three") {
			alpha = []byte{'a', 'b', 'c'}
		}
		set := map[word]bool{}
		n := rapid.IntRange(100, sz(400, 1200)).Draw(t, "manywords")
		L := rapid.IntRange(7, 11).Draw(t, "L")
		seed := rapid.Uint64().Draw(t, "wseed")
		if Thorough && rare(t, "hugenodes", 3000) {
			// thorough only: the Builder's register is a linear list, so a build with more than 65536 nodes takes about 20 s
			return buildCase{HugeN: 22500, HugeSeed: seed, Probes: []word{"aaaaaaaa", "zzzzzzzzzz", "mmmmmmmmm"}}
		}
		for i := 0; i < n; i++ {
			h := hashPrefix(seed, []int{i})
			l := int(h%uint64(L)) + 1
			b := make([]byte, l)
			for j := range b {
				h = h*6364136223846793005 + 1442695040888963407
				b[j] = alpha[int(h>>33)%len(alpha)]
			}
			set[word(b)] = true
		}
		words = sortedWords(set)
	case 2: // a node below the root with a link for every byte value (and one with 255)
		set := map[word]bool{}
		pre := genWordOver(t, alpha, 2) + "q"
		for x := 0; x < 256; x++ {
			set[pre+word([]byte{byte(x)})] = true
			if x != 7 {
				set[pre+"r"+word([]byte{byte(x)})] = true
			}
			if rapid.IntRange(0, 40).Draw(t, "deeper") == 0 {
				set[pre+word([]byte{byte(x)})+genWordOver(t, alpha, 2)] = true
			}
		}
		for _, w := range words {
			set[w] = true
		}
		words = sortedWords(set)
	case 3: // words that share a stem of 60..140 bytes and differ only after it (duplicates and out-of-order words are spliced in below)
		stem := ""
		for L := rapid.SampledFrom([]int{60, 63, 64, 65, 70, 127, 128, 129, 140}).Draw(t, "stemlen"); len(stem) < L; {
			stem += string(genWordOver(t, alpha, 3)) + "s"
		}
		set := map[word]bool{}
		for i := rapid.IntRange(2, 8).Draw(t, "nstem"); i > 0; i-- {
			set[word(stem)+genWordOver(t, alpha, 3)] = true
		}
		set[word(stem)] = true
		words = sortedWords(set)
	case 1: // long words with shared suffixes: unshared tails of 33+ letters
		set := map[word]bool{}
		tail := genWordOver(t, alpha, 4)
		for len(tail) < rapid.SampledFrom([]int{30, 36, 45, 70}).Draw(t, "taillen") {
			tail += genWordOver(t, alpha, 6) + "x"
		}
		for i := rapid.IntRange(1, 6).Draw(t, "nlong"); i > 0; i-- {
			cut := rapid.IntRange(0, len(tail)).Draw(t, "cut")
			set[genWordOver(t, alpha, 3)+tail[cut:]] = true
			set[genWordOver(t, alpha, 2)+tail] = true
		}
		for _, w := range words {
			set[w] = true
		}
		words = sortedWords(set)
	}
	var steps []addStep
	bad := func() {
		// splice an out-of-order or duplicate word
		switch rapid.IntRange(0, 2).Draw(t, "badkind") {
		case 0:
			if len(steps) > 0 {
				steps = append(steps, addStep{W: steps[rapid.IntRange(0, len(steps)-1).Draw(t, "dup")].W})
				return
			}
			fallthrough
		default:
			steps = append(steps, addStep{W: genWordOver(t, alpha, 5)})
		}
	}
	for _, w := range words {
		if rapid.IntRange(0, 5).Draw(t, "splice") == 0 {
			bad()
		}
		steps = append(steps, addStep{W: w})
		if rapid.IntRange(0, 7).Draw(t, "dupnow") == 0 {
			steps = append(steps, addStep{W: w}) // immediate duplicate
		}
	}
	if rapid.IntRange(0, 5).Draw(t, "tail") == 0 {
		bad()
	}
	for i := range steps {
		if steps[i].W == "" {
			steps[i].NilArg = rapid.Bool().Draw(t, "nil")
		}
	}
	var probes []word
	for i := rapid.IntRange(0, 6).Draw(t, "nprobes"); i > 0; i-- {
		probes = append(probes, genWordOver(t, alpha, 7))
	}
	return buildCase{Steps: steps, Probes: probes}
}

func checkBuildCase(c buildCase, rec *Rec) error {
	var b dawg.Builder
	var accepted []word
	rejectedThenAccepted := false
	pendingReject := false
	for i, st := range c.steps() {
		arg := []byte(st.W)
		if st.W == "" && st.NilArg {
			arg = nil
		} else if st.W == "" {
			arg = []byte{}
		}
		keep := append([]byte(nil), arg...)
		var err error
		if p := try(func() { err = b.Add(arg) }); p != nil {
			return fmt.Errorf("step %d: Add(%q) panicked: %v (accepted so far %q)", i, st.W, p, accepted)
		}
		if !bytes.Equal(arg, keep) {
			return fmt.Errorf("step %d: Add modified its argument", i)
		}
		mustAccept := len(accepted) == 0 || accepted[len(accepted)-1] < st.W
		if mustAccept && err != nil {
			return fmt.Errorf("step %d: Add(%q) rejected (%v) although it is greater than the last accepted word %q", i, st.W, err, accepted)
		}
		if !mustAccept && err == nil {
			return fmt.Errorf("step %d: Add(%q) accepted although the last accepted word is %q (not strictly increasing)", i, st.W, accepted[len(accepted)-1])
		}
		if mustAccept {
			accepted = append(accepted, st.W)
			if pendingReject {
				rejectedThenAccepted = true
			}
		} else {
			pendingReject = true
		}
	}
	var d *dawg.Dawg
	var err error
	if p := try(func() { d, err = b.Finish() }); p != nil {
		return fmt.Errorf("Finish panicked for the word set %q: %v", accepted, p)
	}
	if err != nil {
		return fmt.Errorf("Finish returned %v for %q", err, accepted)
	}
	if err := checkAutomaton(d, accepted, probesFor(accepted, c.Probes)); err != nil {
		return fmt.Errorf("Builder: %v", err)
	}
	if c.HugeN > 0 {
		rec.Label("more-than-65536-nodes")
		if n := len(d.VerifNodes()); n <= 65536 {
			return fmt.Errorf("harness: the huge word set gives only %d nodes", n)
		}
		return nil // one build of this size is all that is affordable
	}
	// Initialise makes the builder ready for use again: a second build (the same words in reverse script order is not
	// valid, so: the accepted words once more) must give the same automaton
	if p := try(func() { b.Initialise() }); p != nil {
		return fmt.Errorf("Initialise after Finish panicked: %v", p)
	}
	for i, w := range accepted {
		var aerr error
		arg := []byte(w)
		if p := try(func() { aerr = b.Add(arg) }); p != nil || aerr != nil {
			return fmt.Errorf("after Initialise, Add(%q) (word %d of the second build of %q) failed: %v %v", w, i, accepted, p, aerr)
		}
	}
	var dAgain *dawg.Dawg
	if p := try(func() { dAgain, err = b.Finish() }); p != nil || err != nil {
		return fmt.Errorf("second Finish after Initialise failed: %v %v", p, err)
	}
	if err := checkAutomaton(dAgain, accepted, probesFor(accepted, c.Probes)); err != nil {
		return fmt.Errorf("Builder reused through Initialise: %v", err)
	}
	// and a third build of a DIFFERENT word set with the same builder (nothing of the earlier builds may leak in),
	// which must also survive serialisation
	var other []word
	for i, w := range accepted {
		if i%2 == 0 {
			other = append(other, w+"k")
		} else if len(w) > 0 {
			other = append(other, w[:len(w)-1])
		}
	}
	oset := map[word]bool{}
	for _, w := range other {
		oset[w] = true
	}
	other = sortedWords(oset)
	b.Initialise()
	for _, w := range other {
		if aerr := b.Add([]byte(w)); aerr != nil {
			return fmt.Errorf("third build after Initialise: Add(%q) failed: %v", w, aerr)
		}
	}
	dOther, ferr := b.Finish()
	if ferr != nil {
		return fmt.Errorf("third Finish failed: %v", ferr)
	}
	if err := checkAutomaton(dOther, other, probesFor(other, c.Probes)); err != nil {
		return fmt.Errorf("Builder reused for a different word set: %v", err)
	}
	if enc, eerr := dOther.GobEncode(); eerr != nil {
		return fmt.Errorf("GobEncode of a Dawg from a reused Builder: %v", eerr)
	} else {
		back := new(dawg.Dawg)
		if derr := back.GobDecode(enc); derr != nil {
			return fmt.Errorf("GobDecode of a Dawg from a reused Builder: %v", derr)
		}
		if err := checkAutomaton(back, other, probesFor(other, nil)); err != nil {
			return fmt.Errorf("Dawg from a reused Builder after a gob round trip: %v", err)
		}
	}
	if err := checkAutomaton(d, accepted, probesFor(accepted, nil)); err != nil {
		return fmt.Errorf("the first Dawg after its Builder was reused twice: %v", err)
	}
	// dawg.New on the clean list agrees
	list := make([][]byte, len(accepted))
	for i, w := range accepted {
		list[i] = []byte(w)
	}
	var d2 *dawg.Dawg
	if p := try(func() { d2, err = dawg.New(list) }); p != nil {
		return fmt.Errorf("New(%q) panicked: %v", accepted, p)
	}
	if err != nil {
		return fmt.Errorf("New(%q) returned %v", accepted, err)
	}
	if err := checkAutomaton(d2, accepted, probesFor(accepted, c.Probes)); err != nil {
		return fmt.Errorf("New: %v", err)
	}
	// dawg.New on a list that is not strictly increasing must return an error (as Builder.Add does)
	if len(list) >= 1 {
		for _, badKind := range []string{"duplicate", "swap"} {
			bad := make([][]byte, 0, len(list)+1)
			k := len(list) / 2
			switch badKind {
			case "duplicate":
				bad = append(append(append(bad, list[:k+1]...), list[k]), list[k+1:]...)
			case "swap":
				if len(list) < 2 {
					continue
				}
				bad = append(bad, list...)
				bad[k], bad[(k+1)%len(list)] = bad[(k+1)%len(list)], bad[k]
			}
			var berr error
			var bd *dawg.Dawg
			if p := try(func() { bd, berr = dawg.New(bad) }); p != nil {
				return fmt.Errorf("New on a list with a %s panicked: %v", badKind, p)
			}
			if berr == nil {
				return fmt.Errorf("New accepted a list that is not strictly increasing (%s at position %d of %q); NumberOfWords = %d", badKind, k, accepted, bd.NumberOfWords())
			}
		}
	}
	sharedPrefix, sharedSuffix := false, false
	for i := 1; i < len(accepted); i++ {
		a, bb := accepted[i-1], accepted[i]
		if len(a) > 0 && len(bb) > 0 && a[0] == bb[0] {
			sharedPrefix = true
		}
	}
	suf := map[byte]int{}
	for _, w := range accepted {
		if len(w) > 0 {
			suf[w[len(w)-1]]++
			if suf[w[len(w)-1]] > 1 {
				sharedSuffix = true
			}
		}
	}
	rec.NonTrivial((len(accepted) >= 3 && sharedPrefix && sharedSuffix) || rejectedThenAccepted)
	rec.Labelf("rejected-then-accepted-%v", rejectedThenAccepted)
	rec.Labelf("words-%d", bucket(len(accepted)))
	if len(accepted) == 0 {
		rec.Label("empty-set")
	}
	if len(accepted) > 0 && accepted[0] == "" {
		rec.Label("contains-empty-word")
	}
	return nil
}

func enumSmallWordSets(yield func(buildCase) bool) {
	// every subset of the 15 words of length <= 3 over {a,b} is too many (2^15); take all subsets of the 7 words of
	// length <= 2 (128 sets) and all subsets of size <= 3 of the 15 words of length <= 3.
	var w2, w3 []word
	for _, l := range []int{0, 1, 2, 3} {
		for x := 0; x < 1<<l; x++ {
			b := make([]byte, l)
			for i := range b {
				b[i] = 'a' + byte((x>>i)&1)
			}
			if l <= 2 {
				w2 = append(w2, word(b))
			}
			w3 = append(w3, word(b))
		}
	}
	sort.Slice(w2, func(i, j int) bool { return w2[i] < w2[j] })
	sort.Slice(w3, func(i, j int) bool { return w3[i] < w3[j] })
	emit := func(ws []word) bool {
		steps := make([]addStep, len(ws))
		for i, w := range ws {
			steps[i] = addStep{W: w}
		}
		return yield(buildCase{Steps: steps})
	}
	for mask := 0; mask < 1<<len(w2); mask++ {
		var ws []word
		for i, w := range w2 {
			if mask>>i&1 == 1 {
				ws = append(ws, w)
			}
		}
		if !emit(ws) {
			return
		}
	}
	for i := range w3 {
		for j := i + 1; j < len(w3); j++ {
			if !emit([]word{w3[i], w3[j]}) {
				return
			}
			for k := j + 1; k < len(w3); k++ {
				if !emit([]word{w3[i], w3[j], w3[k]}) {
					return
				}
			}
		}
	}
}

// ---- C13 ----------------------------------------------------------------------------------

type searcherSpec struct {
	Kind  string // "pattern" or "anagram"
	Text  word
	Blank byte
}

type searchCase struct {
	Words     []word
	Searchers []searcherSpec
}

func genSearcherSpec(t *rapid.T, alpha []byte, words []word) searcherSpec {
	kind := rapid.SampledFrom([]string{"pattern", "anagram"}).Draw(t, "skind")
	blank := byte('?')
	if rapid.IntRange(0, 5).Draw(t, "blankisletter") == 0 {
		blank = alpha[rapid.IntRange(0, len(alpha)-1).Draw(t, "bl")]
	}
	var text []byte
	if len(words) > 0 && rapid.IntRange(0, 3).Draw(t, "fromword") != 0 {
		text = []byte(words[rapid.IntRange(0, len(words)-1).Draw(t, "w")])
		if kind == "anagram" && len(text) > 1 { // shuffle
			p := rapid.Permutation(text).Draw(t, "shuffle")
			text = p
		}
	} else {
		text = []byte(genWordOver(t, append(append([]byte{}, alpha...), 'z'), 7))
		if len(words) > 0 && len(words[len(words)/2]) > 20 {
			text = []byte(genWordOver(t, alpha, len(words[len(words)/2])+1))
		}
	}
	text = append([]byte{}, text...)
	blankOdds := 3
	if len(text) > 12 {
		blankOdds = 12 // long patterns: few blanks, anywhere (also beyond position 32)
	}
	for i := range text {
		if rapid.IntRange(0, blankOdds).Draw(t, "toblank") == 0 {
			text[i] = blank
		}
	}
	return searcherSpec{Kind: kind, Text: word(text), Blank: blank}
}

func genSearchCase(t *rapid.T) searchCase {
	wideAll := false
	alpha := genAlphabet(t)
	if len(alpha) > 5 {
		alpha = alpha[:5]
	}
	maxLen := 5
	switch rapid.IntRange(0, 7).Draw(t, "searchshape") {
	case 0: // wide nodes: twenty letters, so that nodes have far more than 8 links
		alpha = []byte("abcdefghijklmnopqrst")
	case 1: // long words: positions beyond 32 and 64
		maxLen = rapid.SampledFrom([]int{34, 40, 70, 70, 130, 260, 300}).Draw(t, "maxlen")
	case 2: // a node with 129..256 links whose high links lead on to longer words
		wideAll = true
	}
	nwords := sz(14, 40)
	if rare(t, "manywords", uint64(sz(40, 12))) {
		nwords = rapid.SampledFrom([]int{260, 300, sz(300, 520), sz(300, 1100)}).Draw(t, "nwords") // more than 256, 512, 1024 results for a permissive query
		maxLen = max(maxLen, 7)
	}
	words := genWordSet(t, alpha, nwords, maxLen)
	if len(alpha) == 20 {
		// make sure the root (and some second-level node) really is wide, with words below every letter
		set := map[word]bool{}
		for _, w := range words {
			set[w] = true
		}
		for i, a := range alpha {
			if rapid.IntRange(0, 5).Draw(t, "skipletter") != 0 {
				set[word([]byte{a})+genWordOver(t, alpha[:3], 2)] = true
				set[word([]byte{'a', a})+word([]byte{alpha[(i*7)%20]})] = true
			}
		}
		words = sortedWords(set)
	}
	if wideAll {
		set := map[word]bool{}
		for _, w := range words {
			set[w] = true
		}
		pre := genWordOver(t, alpha, 1)
		lo := rapid.SampledFrom([]int{0, 0, 100, 127}).Draw(t, "lowestlink")
		for x := lo; x < 256; x++ {
			set[pre+word([]byte{byte(x)})] = true
			if x >= 120 && rapid.IntRange(0, 3).Draw(t, "deeper") == 0 {
				set[pre+word([]byte{byte(x)})+genWordOver(t, alpha, 2)] = true
			}
		}
		words = sortedWords(set)
		alpha = append(append([]byte{}, alpha...), 128, 200, 254, 255)
	}
	n := rapid.SampledFrom([]int{0, 1, 1, 1, 1, 2, 2, 3}).Draw(t, "nsearchers")
	c := searchCase{Words: words}
	for i := 0; i < n; i++ {
		c.Searchers = append(c.Searchers, genSearcherSpec(t, alpha, words))
	}
	return c
}

func matchesSpec(s searcherSpec, w word) bool {
	if len(w) != len(s.Text) {
		return false
	}
	switch s.Kind {
	case "pattern":
		for i := 0; i < len(w); i++ {
			if s.Text[i] != s.Blank && s.Text[i] != w[i] {
				return false
			}
		}
		return true
	case "anagram":
		var need, have [256]int
		for i := 0; i < len(s.Text); i++ {
			if s.Text[i] != s.Blank {
				need[s.Text[i]]++
			}
		}
		for i := 0; i < len(w); i++ {
			have[w[i]]++
		}
		for ch := 0; ch < 256; ch++ {
			if have[ch] < need[ch] {
				return false
			}
		}
		return true // equal length: the surplus letters are exactly as many as the blanks
	}
	panic("harness: bad searcher kind")
}

func buildSearchers(specs []searcherSpec) []dawg.Searcher {
	r, _ := buildSearchersKeep(specs)
	return r
}

// buildSearchersKeep also returns the byte slices handed to the constructors (the caller's pattern / rack).
func buildSearchersKeep(specs []searcherSpec) ([]dawg.Searcher, [][]byte) {
	r := make([]dawg.Searcher, len(specs))
	args := make([][]byte, len(specs))
	for i, s := range specs {
		args[i] = []byte(s.Text)
		if s.Kind == "pattern" {
			r[i] = dawg.NewPatternSearcher(args[i], s.Blank)
		} else {
			r[i] = dawg.NewAnagramSearcher(args[i], s.Blank)
		}
	}
	return r, args
}

func buildDawg(words []word) (*dawg.Dawg, error) {
	list := make([][]byte, len(words))
	for i, w := range words {
		list[i] = []byte(w)
	}
	var d *dawg.Dawg
	var err error
	if p := try(func() { d, err = dawg.New(list) }); p != nil {
		return nil, fmt.Errorf("New(%q) panicked: %v", words, p)
	}
	if err != nil {
		return nil, fmt.Errorf("New(%q): %v", words, err)
	}
	return d, nil
}

func searchResult(d *dawg.Dawg, srch []dawg.Searcher) (string, error) {
	var ws [][]byte
	var ids []int
	if p := try(func() { ws, ids = d.Search(srch...) }); p != nil {
		return "", fmt.Errorf("Search panicked: %v", p)
	}
	if len(ws) != len(ids) {
		return "", fmt.Errorf("Search returned %d words and %d ids", len(ws), len(ids))
	}
	var sb strings.Builder
	for i := range ws {
		fmt.Fprintf(&sb, "%q#%d ", ws[i], ids[i])
	}
	// each returned word is a value of its own: appending to one must not change another
	snap := make([]string, len(ws))
	for i := range ws {
		snap[i] = string(ws[i])
	}
	for i := range ws {
		ws[i] = append(ws[i], 'X', 'Y', 'Z')
	}
	for i := range ws {
		if string(ws[i][:len(ws[i])-3]) != snap[i] {
			return "", fmt.Errorf("Search: word #%d was %q and reads %q after the caller appended to the other returned words", i, snap[i], ws[i][:len(ws[i])-3])
		}
	}
	// the words and ranks returned belong to the caller: overwrite them (a later Search must not be affected)
	for i := range ws {
		for j := range ws[i] {
			ws[i][j] = '#'
		}
		ids[i] = -1
	}
	return sb.String(), nil
}

func expectedSearch(words []word, specs []searcherSpec) (string, int) {
	var sb strings.Builder
	n := 0
	for i, w := range words {
		ok := true
		for _, s := range specs {
			if !matchesSpec(s, w) {
				ok = false
				break
			}
		}
		if ok {
			fmt.Fprintf(&sb, "%q#%d ", []byte(w), i)
			n++
		}
	}
	return sb.String(), n
}

func checkSearchCase(c searchCase, rec *Rec) error {
	d, err := buildDawg(c.Words)
	if err != nil {
		return err
	}
	before := fmt.Sprint(d.VerifNodes())
	srch, given := buildSearchersKeep(c.Searchers)
	for i, sp := range c.Searchers {
		if string(given[i]) != string(sp.Text) {
			return fmt.Errorf("New%sSearcher modified the slice it was given: %q -> %q", sp.Kind, sp.Text, given[i])
		}
	}
	want, nmatch := expectedSearch(c.Words, c.Searchers)
	got, err := searchResult(d, srch)
	if err != nil {
		return fmt.Errorf("%v (words %q searchers %+v)", err, c.Words, c.Searchers)
	}
	if got != want {
		return fmt.Errorf("Search(%+v) over %q = [%s] want [%s]", c.Searchers, c.Words, got, want)
	}
	// the same searcher objects again: they must be back in their initial state
	got2, err := searchResult(d, srch)
	if err != nil {
		return fmt.Errorf("second search: %v", err)
	}
	if got2 != want {
		return fmt.Errorf("repeating Search with the same searchers gives [%s], first time [%s] (searchers %+v, words %q)", got2, got, c.Searchers, c.Words)
	}
	for i, sp := range c.Searchers {
		if string(given[i]) != string(sp.Text) {
			return fmt.Errorf("Search modified the pattern/rack slice of searcher %d: %q -> %q", i, sp.Text, given[i])
		}
	}
	if after := fmt.Sprint(d.VerifNodes()); after != before {
		return fmt.Errorf("Search modified the Dawg")
	}
	if err := checkAutomaton(d, c.Words, probesFor(c.Words, nil)); err != nil {
		return fmt.Errorf("after Search: %v", err)
	}
	mixed := false
	for _, s := range c.Searchers {
		hasBlank, hasLetter := false, false
		for i := 0; i < len(s.Text); i++ {
			if s.Text[i] == s.Blank {
				hasBlank = true
			} else {
				hasLetter = true
			}
		}
		if hasBlank && hasLetter {
			mixed = true
		}
		rec.Label(s.Kind)
	}
	rec.NonTrivial((nmatch >= 1 && nmatch < len(c.Words)) || mixed)
	rec.Labelf("searchers-%d", len(c.Searchers))
	rec.Labelf("matches-%d", bucket(nmatch))
	return nil
}

// ---- C14 ----------------------------------------------------------------------------------

type gobCase struct {
	Shape   string // how the word set was made (label only)
	Words   []word
	Queries []searcherSpec
	// Earlier: word sets built (Add..., Finish, Initialise) with the same Builder before Words is built with it; nil = dawg.New
	Earlier [][]word `json:",omitempty"`
}

func genGobCase(t *rapid.T) gobCase {
	shape := rapid.SampledFrom([]string{"small", "small", "wide", "wide", "manynodes", "manynodes", "chain", "manywords", "mixed", "boundarycount"}).Draw(t, "shape")
	set := map[word]bool{}
	alpha := []byte{'a', 'b', 'c'}
	if Thorough && rare(t, "hugenodes", 4000) {
		// thorough only (one build takes about 20 s): more than 65536 nodes, so node indices need three bytes
		shape = "hugenodes"
		for _, st := range (buildCase{HugeN: 22500, HugeSeed: rapid.Uint64().Draw(t, "hugeseed")}).steps() {
			set[st.W] = true
		}
	}
	switch shape {
	case "small":
		alpha = genAlphabet(t)
		for _, w := range genWordSet(t, alpha, 12, 5) {
			set[w] = true
		}
	case "wide":
		// one node with exactly k children, k around the 1-byte varint boundary
		k := rapid.SampledFrom([]int{1, 2, 31, 32, 33, 63, 64, 65, 126, 127, 128, 129, 130, 200, 255, 256}).Draw(t, "children")
		prefix := genWordOver(t, alpha, 2)
		if rapid.Bool().Draw(t, "widefinal") {
			set[prefix] = true // the wide node itself ends a word
		}
		start := rapid.IntRange(0, 256-k).Draw(t, "start")
		for i := 0; i < k; i++ {
			w := prefix + word([]byte{byte(start + i)})
			if rapid.IntRange(0, 9).Draw(t, "tail") == 0 {
				w += genWordOver(t, alpha, 2)
			}
			set[w] = true
		}
		if rapid.Bool().Draw(t, "second") { // a second wide node deeper down
			k2 := rapid.SampledFrom([]int{64, 65, 127, 128, 129, 256}).Draw(t, "children2")
			for i := 0; i < k2; i++ {
				set[prefix+"zz"+word([]byte{byte(i)})] = true
			}
			if rapid.Bool().Draw(t, "widefinal2") {
				set[prefix+"zz"] = true
			}
		}
	case "manynodes":
		// >= 128 distinct nodes: long words with distinct tails
		n := rapid.IntRange(20, sz(120, 300)).Draw(t, "n")
		for i := 0; i < n; i++ {
			set[word(fmt.Sprintf("%c%03d%s", 'a'+byte(i%3), i, string(genWordOver(t, alpha, 3))))] = true
		}
	case "chain":
		// one long word: a path of L+1 nodes, L+1 at and around 64, 128, 192, 256 (node indices that need a second byte);
		// optionally a few shorter words branching off it
		L := rapid.SampledFrom([]int{62, 63, 64, 65, 126, 127, 128, 129, 130, 190, 191, 192, 193, 254, 255, 256, 257, 300}).Draw(t, "L")
		long := make([]byte, L)
		for i := range long {
			long[i] = alpha[(i*i+i/3)%3]
		}
		set[word(long)] = true
		for k := rapid.IntRange(0, 3).Draw(t, "branches"); k > 0; k-- {
			at := rapid.IntRange(0, L-1).Draw(t, "at")
			set[word(long[:at])+"z"+genWordOver(t, alpha, 2)] = true
		}
	case "manywords":
		// few nodes, many words: all words over {a,b} of length <= L, optionally thinned
		L := rapid.IntRange(6, sz(8, 13)).Draw(t, "L")
		thin := rapid.IntRange(0, 3).Draw(t, "thin")
		var rec func(p []byte)
		rec = func(p []byte) {
			if thin == 0 || len(p)%(thin+1) == 0 {
				set[word(p)] = true
			}
			if len(p) == L {
				return
			}
			rec(append(p, 'a'))
			rec(append(p[:len(p):len(p)], 'b'))
		}
		rec(nil)
	case "boundarycount":
		// exactly T words with T at a length boundary of the integer encoding: the first T words over {a,b} in length-lex order
		T := rapid.SampledFrom([]int{127, 128, 129, 255, 256, 257, 65535, 65536, 65537}).Draw(t, "T")
		if !Thorough && T > 60000 && !rare(t, "hugecount", 8) {
			T = 256
		}
		cur := []word{""}
		for len(set) < T {
			var next []word
			for _, w := range cur {
				if len(set) < T {
					set[w] = true
				}
				next = append(next, w+"a", w+"b")
			}
			cur = next
		}
	case "mixed":
		all := make([]byte, 256)
		for i := range all {
			all[i] = byte(i)
		}
		for _, w := range genWordSet(t, all, sz(60, 300), 3) {
			set[w] = true
		}
	}
	words := sortedWords(set)
	c := gobCase{Shape: shape, Words: words}
	if len(words) < 600 && rapid.IntRange(0, 2).Draw(t, "reusedBuilder") == 0 {
		for i := rapid.IntRange(1, 3).Draw(t, "earlierBuilds"); i > 0; i-- {
			es := map[word]bool{}
			for _, w := range genWordSet(t, alpha, 10, 4) {
				es[w] = true
			}
			for _, w := range words { // related sets: share suffixes with the set under test
				switch rapid.IntRange(0, 5).Draw(t, "borrow") {
				case 0:
					es[w] = true
				case 1:
					if len(w) > 0 {
						es[w[1:]] = true
					}
				}
			}
			c.Earlier = append(c.Earlier, sortedWords(es))
		}
	}
	qalpha := []byte{'a', 'b', 'c', 0, 0x80}
	for i := rapid.IntRange(1, 3).Draw(t, "nq"); i > 0; i-- {
		c.Queries = append(c.Queries, genSearcherSpec(t, qalpha, words))
	}
	return c
}

func dumpUpToIdentity(nodes []dawg.VerifNode) string {
	var sb strings.Builder
	for i, nd := range nodes {
		fmt.Fprintf(&sb, "%d:%v,%d,%v,%v;", i, nd.Final, nd.NumWords, nd.Labels, nd.Targets)
	}
	return sb.String()
}

func checkGobCase(c gobCase, rec *Rec) error {
	var d *dawg.Dawg
	var err error
	if c.Earlier == nil {
		d, err = buildDawg(c.Words)
	} else {
		rec.Label("reused-builder")
		b := new(dawg.Builder)
		for _, ws := range append(append([][]word{}, c.Earlier...), c.Words) {
			if p := try(func() {
				for _, w := range ws {
					if err = b.Add([]byte(w)); err != nil {
						return
					}
				}
				if err == nil {
					d, err = b.Finish()
				}
				b.Initialise()
			}); p != nil {
				return fmt.Errorf("building %q with a reused Builder panicked: %v", clipWords(ws), p)
			}
			if err != nil {
				return fmt.Errorf("building %q with a reused Builder: %v", clipWords(ws), err)
			}
		}
	}
	if err != nil {
		return err
	}
	nodes := d.VerifNodes()
	maxChildren, maxNumWords := 0, 0
	for _, nd := range nodes {
		if len(nd.Labels) > maxChildren {
			maxChildren = len(nd.Labels)
		}
		if nd.NumWords > maxNumWords {
			maxNumWords = nd.NumWords
		}
	}
	rec.NonTrivial(maxChildren >= 128 || len(nodes) >= 128 || maxNumWords >= 128)
	rec.Label("shape-" + c.Shape)
	rec.Labelf("children>=128:%v nodes>=128:%v words>=128:%v", maxChildren >= 128, len(nodes) >= 128, maxNumWords >= 128)
	var enc []byte
	if p := try(func() { enc, err = d.GobEncode() }); p != nil {
		return fmt.Errorf("GobEncode panicked: %v (%d words, max children %d)", p, len(c.Words), maxChildren)
	}
	if err != nil {
		return fmt.Errorf("GobEncode: %v", err)
	}
	probes := probesFor(firstN(c.Words, 60), nil)
	verify := func(how string, d2 *dawg.Dawg) error {
		if err := checkAutomaton(d2, c.Words, probes); err != nil {
			return fmt.Errorf("%s: decoded automaton differs: %v (max children %d, %d nodes)", how, clip(err.Error(), 400), maxChildren, len(nodes))
		}
		if a, b := dumpUpToIdentity(nodes), dumpUpToIdentity(d2.VerifNodes()); a != b {
			return fmt.Errorf("%s: node tables differ after the round trip", how)
		}
		for _, q := range c.Queries {
			w1, e1 := searchResult(d, buildSearchers([]searcherSpec{q}))
			w2, e2 := searchResult(d2, buildSearchers([]searcherSpec{q}))
			if e1 != nil || e2 != nil || w1 != w2 {
				return fmt.Errorf("%s: Search(%+v) differs after the round trip: [%s] vs [%s] (%v %v)", how, q, clip(w1, 200), clip(w2, 200), e1, e2)
			}
		}
		allA, _ := searchResult(d, nil)
		allB, _ := searchResult(d2, nil)
		if allA != allB {
			return fmt.Errorf("%s: the full word/rank listing differs after the round trip", how)
		}
		var enc2 []byte
		var err error
		if p := try(func() { enc2, err = d2.GobEncode() }); p != nil || err != nil {
			return fmt.Errorf("%s: re-encoding failed: %v %v", how, p, err)
		}
		if !bytes.Equal(enc, enc2) {
			return fmt.Errorf("%s: re-encoding the decoded automaton gives different bytes (%d vs %d)", how, len(enc), len(enc2))
		}
		return nil
	}
	// the bytes handed to GobDecode belong to the caller again once it returns (encoding/gob reuses its buffer): decode
	// from a copy, overwrite the copy, and verify after that
	d2 := new(dawg.Dawg)
	encCopy := append([]byte{}, enc...)
	defer func() {
		for i := range encCopy {
			encCopy[i] = 0xAA
		}
	}()
	if p := try(func() { err = d2.GobDecode(encCopy) }); p != nil {
		return fmt.Errorf("GobDecode(GobEncode(d)) panicked: %v (max children %d, %d nodes, %d words)", p, maxChildren, len(nodes), len(c.Words))
	}
	if err != nil {
		return fmt.Errorf("GobDecode(GobEncode(d)) failed: %v (max children %d, %d nodes, %d words)", err, maxChildren, len(nodes), len(c.Words))
	}
	for i := range encCopy {
		encCopy[i] = byte(0x55 + i)
	}
	if err := verify("GobDecode (input buffer overwritten afterwards)", d2); err != nil {
		return err
	}
	// GobDecode replaces the contents of its receiver: decode into an automaton that already holds other words
	// (one containing the empty word, one that does not)
	for _, prior := range [][]word{{"", "zebra"}, {"q", "qq", "qz"}} {
		d4, berr := buildDawg(prior)
		if berr != nil {
			return berr
		}
		if _, eerr := d4.GobEncode(); eerr != nil { // the receiver has been encoded before it is overwritten
			return fmt.Errorf("GobEncode of %q failed: %v", prior, eerr)
		}
		if p := try(func() { err = d4.GobDecode(enc) }); p != nil || err != nil {
			return fmt.Errorf("GobDecode into a Dawg that held %q failed: %v %v", prior, p, err)
		}
		if err := verify(fmt.Sprintf("GobDecode into a Dawg that held %q", prior), d4); err != nil {
			return err
		}
	}
	var buf bytes.Buffer
	if p := try(func() { err = gob.NewEncoder(&buf).Encode(d) }); p != nil || err != nil {
		return fmt.Errorf("encoding/gob Encode failed: %v %v", p, err)
	}
	d3 := new(dawg.Dawg)
	if p := try(func() { err = gob.NewDecoder(&buf).Decode(d3) }); p != nil || err != nil {
		return fmt.Errorf("encoding/gob Decode failed: %v %v (max children %d)", p, err, maxChildren)
	}
	return verify("encoding/gob", d3)
}

func firstN(w []word, n int) []word {
	if len(w) > n {
		return w[:n]
	}
	return w
}

func init() {
	RegisterRapid("C12_build",
		"rapid: a script of Builder.Add calls made from a sorted duplicate-free word list (one case in twelve 100..400 (thorough 1200) hash-generated words over {a,b}/{a,b,c}; one in twelve words with shared suffixes of 30..70 letters; otherwise alphabets of 1..5 letters incl. bytes 0x00/0x80/0xff, or all 256 bytes; word lengths 0..7; nil and []byte{} for the empty word; words derived from earlier ones to share prefixes/suffixes) with out-of-order and duplicate words spliced in, then Finish. Checks: Add errors exactly for words not greater than the last accepted one; NumberOfWords; Lookup = (rank,true) on members and false on prefixes, extensions, one-byte mutations and random probes; via the verif hook the reachable node count equals the number of distinct residual languages (minimal DFA), per-node word counts, ascending labels, no equivalent nodes; a second build with the same Builder after Initialise gives the same automaton; dawg.New agrees, and dawg.New rejects the list with one duplicate / one transposition. Non-trivial: >= 3 words sharing a prefix and a suffix, or an accepted Add after a rejected one.",
		Budget{Checks: 3000, Shards: 1}, Budget{Checks: 200000, Shards: 16}, genBuildCase, checkBuildCase)
	RegisterEnum("C12_small_sets",
		"enumeration: every subset of the 7 words of length <= 2 over {a,b} (128 sets, incl. the empty set and {\"\"}) and every 2- and 3-element subset of the 15 words of length <= 3; same checks as C12_build. Complete for that family.",
		true, Budget{Shards: 1}, Budget{Shards: 1}, enumSmallWordSets, checkBuildCase)
	RegisterRapid("C13_search",
		"rapid: word set as in C12 (one case in eight over twenty letters with words below nearly every letter so that nodes have 15+ links, one in eight with words of up to 34/40/70 letters) x 0..3 searchers, each a pattern or an anagram built from a stored word or from random letters (incl. one letter outside the alphabet), letters turned into blanks with probability 1/4, blank byte sometimes equal to a real letter. Oracle: filter of the sorted word list with matchers written from the doc comments, paired with list index. Search must return exactly that, the same again with the same searcher objects, and leave the Dawg (node dump, Lookup, NumberOfWords) unchanged. Non-trivial: some but not all words match, or a query mixes blanks and letters.",
		Budget{Checks: 4000, Shards: 1}, Budget{Checks: 100000, Shards: 16}, genSearchCase, checkSearchCase)
	RegisterEnum("C14_tiny_sets",
		"enumeration: every subset of {\"\", a, b, ab, ba, abc} (64 sets incl. the empty set and {\"\"}) through the same round-trip checks as C14_gob_roundtrip. Complete for that family.",
		true, Budget{Shards: 1}, Budget{Shards: 1},
		func(yield func(gobCase) bool) {
			base := []word{"", "a", "ab", "abc", "b", "ba"}
			for mask := 0; mask < 1<<len(base); mask++ {
				var ws []word
				for i, w := range base {
					if mask>>i&1 == 1 {
						ws = append(ws, w)
					}
				}
				if ws == nil {
					ws = []word{}
				}
				if !yield(gobCase{Shape: "tiny", Words: ws, Queries: []searcherSpec{{Kind: "pattern", Text: "a?", Blank: '?'}}}) {
					return
				}
			}
		}, checkGobCase)
	RegisterRapid("C14_gob_roundtrip",
		"rapid: word sets aimed at the 1-byte varint boundary: a node with 1,2,126..130,200,255,256 children (optionally two such nodes), >= 128 nodes, up to 2^17 words through few nodes, random sets over all 256 bytes, and small sets. GobDecode(GobEncode(d)) and encoding/gob round trips (into a fresh Dawg and into Dawgs that already hold other words and have themselves been encoded before) must succeed and give the same words, ranks, NumberOfWords, node table (hook) and Search results, and re-encode to identical bytes. Non-trivial: some node has >= 128 children, or there are >= 128 nodes, or some node counts >= 128 words.",
		Budget{Checks: 1000, Shards: 1}, Budget{Checks: 6000, Shards: 16}, genGobCase, checkGobCase)
}
