package props

import (
	"fmt"

	"github.com/Tom-Johnston/mamba/graph"
	"pgregory.net/rapid"
	"verifharness/oracle"
)

// C09 beyond the sizes where the partition DP is affordable: graphs whose chromatic and clique number are known by
// construction (a random K-partite graph with a planted K-clique has chi = omega = K).

type plantedCase struct {
	N, K int
	Dens int // edge probability Dens/8 between different colour classes
	Seed uint64
	Perm []int
}

func (c plantedCase) build() (*oracle.G, []int) {
	class := make([]int, c.N)
	for v := range class {
		if v < c.K {
			class[v] = v // every class is non-empty
		} else {
			class[v] = int(hashPrefix(c.Seed, []int{v, -1}) % uint64(c.K))
		}
	}
	g := oracle.New(c.N)
	for j := 0; j < c.N; j++ {
		for i := 0; i < j; i++ {
			if class[i] == class[j] {
				continue
			}
			if (i < c.K && j < c.K) || hashPrefix(c.Seed, []int{i, j})%8 < uint64(c.Dens) {
				g.Add(i, j) // vertices 0..K-1 form the planted clique
			}
		}
	}
	return g, class
}

func genPlantedCase(t *rapid.T) plantedCase {
	k := rapid.IntRange(1, 6).Draw(t, "k")
	n := rapid.IntRange(max(k, 9), sz(40, 48)).Draw(t, "n")
	return plantedCase{N: n, K: k, Dens: rapid.IntRange(1, 7).Draw(t, "dens"), Seed: rapid.Uint64().Draw(t, "seed"), Perm: genPerm(t, n, "pi")}
}

func checkPlantedCase(c plantedCase, rec *Rec) error {
	g0, _ := c.build()
	g := g0.Induced(c.Perm) // the planted clique and the classes are scattered over the labels
	rec.NonTrivial(c.N >= 12 && c.K >= 3)
	rec.Labelf("k=%d", c.K)
	rec.Labelf("n-%d", bucket(c.N))
	for _, rep := range []string{"dense", "sparse", "cocomp"} {
		gr := repOf(g, rep)
		what := fmt.Sprintf("[%s; %d-partite graph with a planted K%d on %d vertices, edges %v]", rep, c.K, c.K, c.N, clipEdges(g))
		var chi, omega int
		var col []int
		// the exact colouring functions are exponential (refuting K-1 colours on a sparse 46-vertex graph ran for more than
		// an hour): they are asked up to 26 (thorough 34) vertices, the clique functions on every size
		colouring := c.N <= sz(26, 34)
		if colouring {
			if p := try(func() { chi, col = graph.ChromaticNumber(gr) }); p != nil {
				return fmt.Errorf("%s ChromaticNumber panicked: %v", what, p)
			}
			if chi != c.K {
				return fmt.Errorf("%s ChromaticNumber = %d, the graph is %d-partite and contains K%d", what, chi, c.K, c.K)
			}
			if !properOn(g, col) || distinctCount(col) != c.K {
				return fmt.Errorf("%s ChromaticNumber colouring %v is not a proper colouring with exactly %d colours", what, col, c.K)
			}
		}
		if p := try(func() { omega = graph.CliqueNumber(gr) }); p != nil {
			return fmt.Errorf("%s CliqueNumber panicked: %v", what, p)
		}
		if omega != c.K {
			return fmt.Errorf("%s CliqueNumber = %d want %d", what, omega, c.K)
		}
		// degeneracy with its order certificate (greedy min-degree deletion as the oracle, any size)
		{
			var dg int
			var ord []int
			if p := try(func() { dg, ord = graph.Degeneracy(gr) }); p != nil {
				return fmt.Errorf("%s Degeneracy panicked: %v", what, p)
			}
			if want := oracle.DegeneracyGreedy(g); dg != want {
				return fmt.Errorf("%s Degeneracy = %d want %d", what, dg, want)
			}
			if !oracle.IsPerm(ord, c.N) {
				return fmt.Errorf("%s Degeneracy order %v is not a permutation", what, ord)
			}
			pos := invPerm(ord)
			for _, x := range ord {
				before := 0
				for _, u := range g.Nbrs(x) {
					if pos[u] < pos[x] {
						before++
					}
				}
				if before > dg {
					return fmt.Errorf("%s Degeneracy order %v: vertex %d is preceded by %d neighbours, d = %d", what, ord, x, before, dg)
				}
			}
		}
		// all maximal cliques, beyond the subset-enumeration sizes: against the oracle's own recursion, each exactly once
		if wantCl, ok := oracle.MaximalCliquesLarge(g, 60000); ok {
			gotCl, err := drainCliques(gr)
			if err != nil {
				return fmt.Errorf("%s %v", what, err)
			}
			if gs, ws := fmt.Sprint(sortedSets(gotCl)), fmt.Sprint(sortedSets(wantCl)); gs != ws {
				return fmt.Errorf("%s AllMaximalCliques sent %d cliques, there are %d maximal cliques: %s want %s", what, len(gotCl), len(wantCl), clip(gs, 300), clip(ws, 300))
			}
			rec.Labelf("maximal-cliques-%d", bucket(len(wantCl)))
		} else {
			rec.Label("maximal-cliques-skipped")
		}
		for _, k := range []int{c.K - 1, c.K, c.K + 1} {
			if k < 0 || !colouring {
				continue
			}
			var ok bool
			var kc []int
			if p := try(func() { ok, kc = graph.IsKColorable(gr, k) }); p != nil {
				return fmt.Errorf("%s IsKColorable(%d) panicked: %v", what, k, p)
			}
			if ok != (k >= c.K) {
				return fmt.Errorf("%s IsKColorable(%d) = %v but the chromatic number is %d", what, k, ok, c.K)
			}
			if ok {
				if !properOn(g, kc) {
					return fmt.Errorf("%s IsKColorable(%d) colouring %v is not proper", what, k, kc)
				}
				for _, x := range kc {
					if x >= k {
						return fmt.Errorf("%s IsKColorable(%d) colouring uses colour %d", what, k, x)
					}
				}
			}
		}
		// first-fit along the planted classes' order uses at most K colours only if ... (no claim); but greedy must stay proper
		order := make([]int, c.N)
		for i := range order {
			order[i] = i
		}
		var mx int
		var gc []int
		if p := try(func() { mx, gc = graph.GreedyColor(gr, order) }); p != nil {
			return fmt.Errorf("%s GreedyColor panicked: %v", what, p)
		}
		if !properOn(g, gc) || mx+1 != distinctCount(gc) || mx+1 < c.K {
			return fmt.Errorf("%s GreedyColor = (%d, %v): not a proper colouring with colours 0..max, or fewer than chi colours", what, mx, gc)
		}
	}
	return nil
}

func init() {
	RegisterRapid("C09_planted_chi_omega",
		"rapid: random K-partite graphs (K in 1..6, density 1/8..7/8 between classes) with a planted K-clique on 9..40 (thorough 48) vertices (the exponential colouring functions up to 26 / 34 vertices), relabelled by a uniform permutation, so chi = omega = K by construction: ChromaticNumber (value and witness), CliqueNumber, IsKColorable(K-1) = false, IsKColorable(K) and (K+1) = true with valid witnesses, GreedyColor proper, Degeneracy (value against greedy minimum-degree deletion, order certificate), AllMaximalCliques against an independent recursion (each clique once, delivered cliques never change afterwards); dense, sparse and view inputs. Covers sizes beyond the O(3^n) oracle. Non-trivial: n >= 12 and K >= 3.",
		Budget{Checks: 1500, Shards: 2}, Budget{Checks: 4000, Shards: 16}, genPlantedCase, checkPlantedCase)
}
