package props

import (
	"fmt"
	"hash/fnv"
	"sync"

	"github.com/Tom-Johnston/mamba/graph/search"
	"verifharness/oracle"
)

// C03 on all graphs with 9 (quick) / 10 (thorough) vertices: the shards of All(n, a, 16) must yield exactly A000088(n)
// well-formed, pairwise non-isomorphic graphs on n vertices - which is the same as "every class exactly once", because
// that is the number of classes (OEIS A000088; the values up to n = 9 are reproduced by the oracle's own enumeration).

var numberOfGraphs = map[int]int{0: 1, 1: 1, 2: 2, 3: 4, 4: 11, 5: 34, 6: 156, 7: 1044, 8: 12346, 9: 274668, 10: 12005168}

type allCase struct{ N, M int }

func checkAllComplete(c allCase, rec *Rec) error {
	type key [2]uint64
	var mu sync.Mutex
	seen := make(map[key]int, numberOfGraphs[c.N]) // canonical-key hash -> shard
	errs := make([]error, c.M)
	var wg sync.WaitGroup
	sem := make(chan struct{}, 16)
	for a := 0; a < c.M; a++ {
		wg.Add(1)
		go func(a int) {
			defer wg.Done()
			sem <- struct{}{}
			defer func() { <-sem }()
			defer func() {
				if p := recover(); p != nil {
					errs[a] = fmt.Errorf("shard %d of All(%d,·,%d) panicked: %v", a, c.N, c.M, p)
				}
			}()
			it := search.All(c.N, a, c.M)
			local := make([]key, 0, 1<<16)
			for it.Next() {
				d := it.Value()
				if d.N() != c.N {
					errs[a] = fmt.Errorf("All(%d,%d,%d) yielded a graph on %d vertices", c.N, a, c.M, d.N())
					return
				}
				g := oracle.New(c.N)
				cnt := 0
				for i := 0; i < c.N; i++ {
					for j := 0; j < i; j++ {
						if d.IsEdge(i, j) {
							g.Add(i, j)
							cnt++
						}
					}
				}
				if cnt != d.M() {
					errs[a] = fmt.Errorf("All(%d,%d,%d) yielded a malformed graph: M() = %d, %d edges", c.N, a, c.M, d.M(), cnt)
					return
				}
				ck := oracle.Canon(g)
				h1 := fnv.New64a()
				h1.Write([]byte(ck))
				h2 := fnv.New64()
				h2.Write([]byte(ck))
				local = append(local, key{h1.Sum64(), h2.Sum64()})
				if len(local) == cap(local) {
					mu.Lock()
					for _, k := range local {
						if b, dup := seen[k]; dup {
							errs[a] = fmt.Errorf("All(%d,·,%d): shard %d yields a graph isomorphic to one already yielded (by shard %d)", c.N, c.M, a, b)
						}
						seen[k] = a
					}
					mu.Unlock()
					local = local[:0]
					if errs[a] != nil {
						return
					}
				}
			}
			mu.Lock()
			for _, k := range local {
				if b, dup := seen[k]; dup {
					errs[a] = fmt.Errorf("All(%d,·,%d): shard %d yields a graph isomorphic to one already yielded (by shard %d)", c.N, c.M, a, b)
				}
				seen[k] = a
			}
			mu.Unlock()
		}(a)
	}
	wg.Wait()
	for _, e := range errs {
		if e != nil {
			return e
		}
	}
	if len(seen) != numberOfGraphs[c.N] {
		return fmt.Errorf("the %d shards of All(%d) yield %d pairwise non-isomorphic graphs, there are %d classes (OEIS A000088)", c.M, c.N, len(seen), numberOfGraphs[c.N])
	}
	rec.NonTrivial(true)
	SetExtra(fmt.Sprintf("graphs_on_%d_vertices_m%d", c.N, c.M), len(seen))
	return nil
}

func init() {
	RegisterEnum("C03_all_graphs_complete",
		"enumeration: All(n, a, m) for n = 8 (m = 5), n = 9 (m = 3) and n = 10 (m = 16; 12005168 graphs); thorough n = 9 (m = 1) and n = 10 with m = 16, 7 and 1: every yielded graph is canonised by the oracle, the canonical keys must be pairwise different over all shards, and their number must be A000088(n). The shards run on separate goroutines. Complete for those n.",
		true, Budget{Shards: 1}, Budget{Shards: 4},
		func(yield func(allCase) bool) {
			cases := []allCase{{8, 5}, {9, 3}, {10, 16}}
			if Thorough {
				cases = []allCase{{9, 1}, {10, 16}, {10, 7}, {10, 1}}
			}
			for i, c := range cases {
				if i%NShards != Shard {
					continue
				}
				if !yield(c) {
					return
				}
			}
		}, checkAllComplete)
}
