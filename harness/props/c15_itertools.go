package props

import (
	"fmt"
	"sort"
	"strings"

	"github.com/Tom-Johnston/mamba/itertools"
	"pgregory.net/rapid"
)

// C15: iterators enumerate exactly the advertised objects, once each, in the documented order.

type itCase struct {
	Iter string
	N, K int
	M    []int  // factor list / multiplicities
	Pred string // predicate family for the predicate-driven iterators
	Seed uint64
	D    int
	Rel  [][2]int // TopologicalSorts: pairs i<j with less(i,j) = true
}

// ---- brute-force families -------------------------------------------------------------------

func allProducts(n []int) [][]int {
	out := [][]int{}
	for _, v := range n {
		if v < 1 {
			return out
		}
	}
	cur := make([]int, len(n))
	var rec func(i int)
	rec = func(i int) {
		if i == len(n) {
			out = append(out, append([]int{}, cur...))
			return
		}
		for v := 0; v < n[i]; v++ {
			cur[i] = v
			rec(i + 1)
		}
	}
	rec(0)
	return out
}

func allCombinationsLex(n, k int) [][]int {
	out := [][]int{}
	cur := []int{}
	var rec func(start int)
	rec = func(start int) {
		if len(cur) == k {
			out = append(out, append([]int{}, cur...))
			return
		}
		for v := start; v <= n-(k-len(cur)); v++ { // enough elements left to complete the subset
			cur = append(cur, v)
			rec(v + 1)
			cur = cur[:len(cur)-1]
		}
	}
	rec(0)
	return out
}

// linearExtensions lists every permutation of 0..n-1 in which i comes before j for every given pair (i,j), by the
// definition-level search "place any element all of whose predecessors are placed"; stops after limit results.
func linearExtensions(n int, rel [][2]int, limit int) [][]int {
	preds := make([][]int, n)
	for _, e := range rel {
		preds[e[1]] = append(preds[e[1]], e[0])
	}
	placed := make([]bool, n)
	cur := make([]int, 0, n)
	out := [][]int{}
	var rec func()
	rec = func() {
		if len(out) >= limit {
			return
		}
		if len(cur) == n {
			out = append(out, append([]int{}, cur...))
			return
		}
		for v := 0; v < n; v++ {
			if placed[v] {
				continue
			}
			ok := true
			for _, p := range preds[v] {
				if !placed[p] {
					ok = false
					break
				}
			}
			if ok {
				placed[v] = true
				cur = append(cur, v)
				rec()
				cur = cur[:len(cur)-1]
				placed[v] = false
			}
		}
	}
	rec()
	return out
}

func colexLess(a, b []int) bool {
	for i := len(a) - 1; i >= 0; i-- {
		if a[i] != b[i] {
			return a[i] < b[i]
		}
	}
	return false
}

func allPermsLexOfMultiset(freq []int) [][]int {
	total := 0
	for _, f := range freq {
		total += f
	}
	left := append([]int{}, freq...)
	out := [][]int{}
	cur := []int{}
	var rec func()
	rec = func() {
		if len(cur) == total {
			out = append(out, append([]int{}, cur...))
			return
		}
		for v := range left {
			if left[v] > 0 {
				left[v]--
				cur = append(cur, v)
				rec()
				cur = cur[:len(cur)-1]
				left[v]++
			}
		}
	}
	rec()
	return out
}

func allPermsLex(n int) [][]int {
	f := make([]int, n)
	for i := range f {
		f[i] = 1
	}
	return allPermsLexOfMultiset(f)
}

func allMultisetCombinations(m []int, k int) [][]int { // as frequency vectors
	out := [][]int{}
	cur := make([]int, len(m))
	var rec func(i, left int)
	rec = func(i, left int) {
		if i == len(m) {
			if left == 0 {
				out = append(out, append([]int{}, cur...))
			}
			return
		}
		for f := 0; f <= m[i] && f <= left; f++ {
			cur[i] = f
			rec(i+1, left-f)
		}
		cur[i] = 0
	}
	rec(0, k)
	return out
}

func allSetPartitionsRGS(n int) [][]int {
	out := [][]int{}
	cur := make([]int, n)
	var rec func(i, max int)
	rec = func(i, max int) {
		if i == n {
			out = append(out, append([]int{}, cur...))
			return
		}
		for v := 0; v <= max+1; v++ {
			cur[i] = v
			nm := max
			if v > max {
				nm = v
			}
			rec(i+1, nm)
		}
	}
	if n == 0 {
		return [][]int{{}}
	}
	cur[0] = 0
	rec(1, 0)
	return out
}

func blocksOfRGS(rgs []int) [][]int {
	max := -1
	for _, v := range rgs {
		if v > max {
			max = v
		}
	}
	b := make([][]int, max+1)
	for i := range b {
		b[i] = []int{}
	}
	for i, v := range rgs {
		b[v] = append(b[v], i)
	}
	return b
}

func allIntegerPartitionsRevLex(n int) [][]int {
	out := [][]int{}
	cur := []int{}
	var rec func(left, maxPart int)
	rec = func(left, maxPart int) {
		if left == 0 {
			out = append(out, append([]int{}, cur...))
			return
		}
		for p := min(left, maxPart); p >= 1; p-- {
			cur = append(cur, p)
			rec(left-p, p)
			cur = cur[:len(cur)-1]
		}
	}
	rec(n, n)
	return out
}

// ---- predicates ---------------------------------------------------------------------------

func hashPrefix(seed uint64, p []int) uint64 {
	h := seed*0x9e3779b97f4a7c15 + 0x632be59bd9b4e019
	for _, v := range p {
		h ^= uint64(v+1) * 0xff51afd7ed558ccd
		h = (h ^ (h >> 33)) * 0xc4ceb9fe1a85ec53
		h ^= h >> 29
	}
	return h
}

func makePred(c itCase) func(p []int) bool {
	switch c.Pred {
	case "all":
		return func(p []int) bool { return true }
	case "none":
		return func(p []int) bool { return false }
	case "hash":
		return func(p []int) bool { return hashPrefix(c.Seed, p)%uint64(c.D) != 0 }
	case "nofixed": // last entry is not a fixed point
		return func(p []int) bool { return p[len(p)-1] != len(p)-1 }
	case "ascending-pairs": // no descent by more than D
		return func(p []int) bool { return len(p) < 2 || p[len(p)-2]-p[len(p)-1] <= c.D }
	case "boundedsum":
		return func(p []int) bool {
			s := 0
			for _, v := range p {
				s += v
			}
			return s <= c.D*len(p)
		}
	}
	panic("harness: unknown predicate " + c.Pred)
}

func allPrefixesAccepted(pred func([]int) bool, v []int) bool {
	for l := 1; l <= len(v); l++ {
		if !pred(v[:l]) {
			return false
		}
	}
	return true
}

func standardise(p []int) []int {
	idx := make([]int, len(p))
	for i := range idx {
		idx[i] = i
	}
	sort.Slice(idx, func(a, b int) bool { return p[idx[a]] < p[idx[b]] })
	r := make([]int, len(p))
	for rank, i := range idx {
		r[i] = rank
	}
	return r
}

// ---- driving an iterator ------------------------------------------------------------------

func keyOf(v any) string { return fmt.Sprint(v) }

// drive calls next at most len(want)+3 times, copying each value. ordered: compare element by element,
// otherwise as a duplicate-free set. sticky: after the first false, three more calls must be false.
func drive(name string, next func() bool, value func() any, want []any, ordered, sticky bool) error {
	got := []any{}
	ended := false
	for i := 0; i < len(want)+3; i++ {
		var ok bool
		if p := try(func() { ok = next() }); p != nil {
			return fmt.Errorf("%s: Next call #%d panicked: %v", name, i+1, p)
		}
		if !ok {
			ended = true
			break
		}
		var v any
		if p := try(func() { v = value() }); p != nil {
			return fmt.Errorf("%s: Value after Next call #%d panicked: %v", name, i+1, p)
		}
		got = append(got, v)
		if len(got) > len(want) {
			return fmt.Errorf("%s: yielded %d values, the family has %d; extra value %v (first values %s)", name, len(got), len(want), v, head(got))
		}
	}
	if !ended {
		return fmt.Errorf("%s: still yielding after %d values (family has %d)", name, len(got), len(want))
	}
	if len(got) != len(want) {
		return fmt.Errorf("%s: yielded %d values, want %d; got %s want %s", name, len(got), len(want), head(got), head(want))
	}
	if ordered {
		for i := range want {
			if keyOf(got[i]) != keyOf(want[i]) {
				return fmt.Errorf("%s: value #%d = %v want %v (documented order)", name, i, got[i], want[i])
			}
		}
	} else {
		seen := map[string]bool{}
		for _, v := range got {
			if seen[keyOf(v)] {
				return fmt.Errorf("%s: value %v yielded twice", name, v)
			}
			seen[keyOf(v)] = true
		}
		for _, v := range want {
			if !seen[keyOf(v)] {
				return fmt.Errorf("%s: value %v never yielded; got %s", name, v, head(got))
			}
		}
	}
	if sticky {
		for i := 0; i < 3; i++ {
			var ok bool
			if p := try(func() { ok = next() }); p != nil {
				return fmt.Errorf("%s: Next after exhaustion panicked: %v", name, p)
			}
			if ok {
				var v any
				try(func() { v = value() })
				return fmt.Errorf("%s: Next returned true again after reporting exhaustion (call %d after the end, value %v)", name, i+1, v)
			}
		}
	}
	return nil
}

func head(vs []any) string {
	var b strings.Builder
	for i, v := range vs {
		if i == 6 {
			b.WriteString(" ...")
			break
		}
		fmt.Fprintf(&b, " %v", v)
	}
	return "[" + strings.TrimSpace(b.String()) + "]"
}

func toAny(vs [][]int) []any {
	r := make([]any, len(vs))
	for i := range vs {
		r[i] = vs[i]
	}
	return r
}

func cp(a []int) []int { return append([]int{}, a...) }

// emptyFamilyContested: for these constructors the code special-cases the empty object away
// (IntegerPartitions(0), LexicographicPermutations(0), MultisetPermutations of the empty multiset),
// while sibling iterators yield it. The property does not settle which is meant, so both "yields the one
// empty object" and "yields nothing" are accepted (see DESIGN.md, section 4).
func driveEmptyContested(name string, next func() bool, value func() any) error {
	var ok bool
	if p := try(func() { ok = next() }); p != nil {
		return fmt.Errorf("%s: Next panicked: %v", name, p)
	}
	if ok {
		v := value()
		if keyOf(v) != "[]" {
			return fmt.Errorf("%s: first value %v, want the empty object", name, v)
		}
	}
	for i := 0; i < 3; i++ {
		if p := try(func() { ok = next() }); p != nil {
			return fmt.Errorf("%s: Next panicked: %v", name, p)
		}
		if ok {
			return fmt.Errorf("%s: yields more than one object for an empty family", name)
		}
	}
	return nil
}

func checkItCase(c itCase, rec *Rec) error {
	rec.Label(c.Iter)
	switch c.Iter {
	case "Combinations":
		want := allCombinationsLex(c.N, c.K)
		rec.NonTrivial(len(want) >= 2 || c.N <= 1 || c.K == 0 || c.K >= c.N)
		it := itertools.Combinations(c.N, c.K)
		return drive(fmt.Sprintf("Combinations(%d,%d)", c.N, c.K), it.Next, func() any { return cp(it.Value()) }, toAny(want), true, true)
	case "CombinationsColex":
		want := allCombinationsLex(c.N, c.K)
		sort.SliceStable(want, func(a, b int) bool { return colexLess(want[a], want[b]) })
		rec.NonTrivial(len(want) >= 2 || c.N <= 1 || c.K == 0 || c.K >= c.N)
		it := itertools.CombinationsColex(c.N, c.K)
		return drive(fmt.Sprintf("CombinationsColex(%d,%d)", c.N, c.K), it.Next, func() any { return cp(it.Value()) }, toAny(want), true, true)
	case "MultisetCombinations":
		wantF := allMultisetCombinations(c.M, c.K)
		rec.NonTrivial(len(wantF) >= 2 || c.K == 0 || len(c.M) <= 1)
		m := cp(c.M)
		it := itertools.MultisetCombinations(m, c.K)
		name := fmt.Sprintf("MultisetCombinations(%v,%d)", c.M, c.K)
		var inner error
		// the observers need not be called after every step: FreqValue is read on every stride-th step only (stride 1, 2,
		// 3 or 5, from the case), on the other steps the frequencies are counted from Value
		stride := []int{1, 2, 3, 5}[(c.K+len(c.M))%4]
		step := 0
		err := drive(name, it.Next, func() any {
			step++
			if step%stride != 0 {
				live := it.Value()
				v := cp(live)
				// "You may modify the return value": do so, and read the same position again
				for i := range live {
					live[i] = -5
				}
				if again := cp(it.Value()); !eqInts(again, v) {
					inner = fmt.Errorf("%s: Value = %v, and %v when read again after the caller modified the first result", name, v, again)
				}
				cnt := make([]int, len(c.M))
				for _, x := range v {
					if x < 0 || x >= len(c.M) {
						inner = fmt.Errorf("%s: Value %v has an element outside 0..%d", name, v, len(c.M)-1)
						return cnt
					}
					cnt[x]++
				}
				return cnt
			}
			f := cp(it.FreqValue())
			v := cp(it.Value())
			// Value must be the multiset described by FreqValue
			cnt := make([]int, len(c.M))
			for _, x := range v {
				if x < 0 || x >= len(c.M) {
					inner = fmt.Errorf("%s: Value %v has an element outside 0..%d", name, v, len(c.M)-1)
					return f
				}
				cnt[x]++
			}
			if len(v) != c.K || !eqInts(cnt, f) {
				inner = fmt.Errorf("%s: Value %v is not the multiset of FreqValue %v", name, v, f)
			}
			return f
		}, toAny(wantF), false, true)
		if inner != nil {
			return inner
		}
		if !eqInts(m, c.M) {
			return fmt.Errorf("%s modified its argument to %v", name, m)
		}
		return err
	case "Permutations":
		want := allPermsLex(c.N)
		rec.NonTrivial(len(want) >= 2 || c.N <= 1)
		it := itertools.Permutations(c.N)
		return drive(fmt.Sprintf("Permutations(%d)", c.N), it.Next, func() any { return cp(it.Value()) }, toAny(want), false, true)
	case "LexicographicPermutations":
		it := itertools.LexicographicPermutations(c.N)
		name := fmt.Sprintf("LexicographicPermutations(%d)", c.N)
		if c.N == 0 {
			rec.Label("contested-empty-family")
			return driveEmptyContested(name, it.Next, func() any { return cp(it.Value()) })
		}
		want := allPermsLex(c.N)
		rec.NonTrivial(true)
		return drive(name, it.Next, func() any { return cp(it.Value()) }, toAny(want), true, true)
	case "MultisetPermutations":
		total := 0
		for _, f := range c.M {
			total += f
		}
		freq := cp(c.M)
		it := itertools.MultisetPermutations(freq)
		name := fmt.Sprintf("MultisetPermutations(%v)", c.M)
		if total == 0 {
			rec.Label("contested-empty-family")
			return driveEmptyContested(name, it.Next, func() any { return cp(it.Value()) })
		}
		want := allPermsLexOfMultiset(c.M)
		rec.NonTrivial(true)
		err := drive(name, it.Next, func() any { return cp(it.Value()) }, toAny(want), true, true)
		if err == nil && !eqInts(freq, c.M) {
			return fmt.Errorf("%s modified its argument to %v", name, freq)
		}
		return err
	case "Partitions":
		rgs := allSetPartitionsRGS(c.N)
		want := make([]any, len(rgs))
		for i := range rgs {
			want[i] = blocksOfRGS(rgs[i])
		}
		rec.NonTrivial(true)
		var it *itertools.PartitionIterator
		name := fmt.Sprintf("Partitions(%d)", c.N)
		if p := try(func() { it = itertools.Partitions(c.N) }); p != nil {
			return fmt.Errorf("%s panicked: %v", name, p)
		}
		return drive(name, it.Next, func() any {
			v := it.Value()
			out := make([][]int, len(v))
			for i := range v {
				out[i] = cp(v[i])
			}
			return out
		}, want, true, true)
	case "IntegerPartitions":
		it := itertools.IntegerPartitions(c.N)
		name := fmt.Sprintf("IntegerPartitions(%d)", c.N)
		if c.N == 0 {
			rec.Label("contested-empty-family")
			return driveEmptyContested(name, it.Next, func() any { return cp(it.Value()) })
		}
		want := allIntegerPartitionsRevLex(c.N)
		rec.NonTrivial(true)
		return drive(name, it.Next, func() any { return cp(it.Value()) }, toAny(want), true, true)
	case "Product":
		// astronomically large products cannot be enumerated: check that the first values are distinct members
		big := 1.0
		for _, v := range c.M {
			if v < 1 {
				big = 0
				break
			}
			big *= float64(v)
		}
		if big > 1e6 {
			rec.Label("huge-product-prefix-only")
			rec.NonTrivial(true)
			it := itertools.Product(cp(c.M)...)
			seen := map[string]bool{}
			for i := 0; i < 200; i++ {
				var ok bool
				if p := try(func() { ok = it.Next() }); p != nil {
					return fmt.Errorf("Product(%v): Next call #%d panicked: %v", c.M, i+1, p)
				}
				if !ok {
					return fmt.Errorf("Product(%v) reports exhaustion after %d values; the family has about %.3g members", c.M, i, big)
				}
				v := cp(it.Value())
				if len(v) != len(c.M) {
					return fmt.Errorf("Product(%v): value %v has the wrong length", c.M, v)
				}
				for j, x := range v {
					if x < 0 || x >= c.M[j] {
						return fmt.Errorf("Product(%v): value %v is outside the product", c.M, v)
					}
				}
				if seen[fmt.Sprint(v)] {
					return fmt.Errorf("Product(%v): value %v yielded twice", c.M, v)
				}
				seen[fmt.Sprint(v)] = true
			}
			return nil
		}
		want := allProducts(c.M)
		rec.NonTrivial(true)
		arg := cp(c.M)
		it := itertools.Product(arg...)
		// the constructor copies its argument ("in case it changes", says the source): later writes by the caller are invisible
		for i := range arg {
			arg[i] = 1 + (arg[i]+2)%3
		}
		arg = cp(c.M)
		name := fmt.Sprintf("Product(%v)", c.M)
		err := drive(name, it.Next, func() any { return cp(it.Value()) }, toAny(want), false, true)
		if err == nil && !eqInts(arg, c.M) {
			return fmt.Errorf("%s modified its argument", name)
		}
		return err
	case "RestrictedPrefixProduct":
		pred := makePred(c)
		var want [][]int
		for _, v := range allProducts(c.M) {
			if allPrefixesAccepted(pred, v) {
				want = append(want, v)
			}
		}
		name := fmt.Sprintf("RestrictedPrefixProduct(%s seed=%d d=%d, %v)", c.Pred, c.Seed, c.D, c.M)
		dims := cp(c.M)
		var bad error
		it := itertools.RestrictedPrefixProduct(func(p []int) bool {
			if len(p) < 1 || len(p) > len(c.M) {
				bad = fmt.Errorf("%s: predicate called with %v (not a prefix)", name, p)
				return false
			}
			for i, v := range p {
				if v < 0 || v >= c.M[i] {
					bad = fmt.Errorf("%s: predicate called with %v (coordinate %d out of range)", name, p, i)
					return false
				}
			}
			return pred(p)
		}, dims...)
		// as for Product: the factor list is copied at construction, later writes by the caller are invisible
		for i := range dims {
			dims[i] = 1 + (dims[i]+2)%3
		}
		rec.NonTrivial(len(want) >= 1 && len(want) < len(allProducts(c.M)))
		err := drive(name, it.Next, func() any { return cp(it.Value()) }, toAny(want), false, false)
		if bad != nil {
			return bad
		}
		return err
	case "RestrictedPrefixPermutations":
		pred := makePred(c)
		var want [][]int
		all := allPermsLex(c.N)
		for _, v := range all {
			if allPrefixesAccepted(pred, v) {
				want = append(want, v)
			}
		}
		name := fmt.Sprintf("RestrictedPrefixPermutations(%d, %s seed=%d d=%d)", c.N, c.Pred, c.Seed, c.D)
		var bad error
		it := itertools.RestrictedPrefixPermutations(c.N, func(p []int) bool {
			seen := map[int]bool{}
			if len(p) < 1 || len(p) > c.N {
				bad = fmt.Errorf("%s: predicate called with %v", name, p)
				return false
			}
			for _, v := range p {
				if v < 0 || v >= c.N || seen[v] {
					bad = fmt.Errorf("%s: predicate called with %v (not a prefix of a permutation)", name, p)
					return false
				}
				seen[v] = true
			}
			return pred(p)
		})
		rec.NonTrivial(len(want) >= 1 && len(want) < len(all))
		err := drive(name, it.Next, func() any { return cp(it.Value()) }, toAny(want), true, false)
		if bad != nil {
			return bad
		}
		return err
	case "PermutationsByPattern":
		pred := makePred(c)
		var want [][]int
		all := allPermsLex(c.N)
		for _, v := range all {
			ok := true
			for l := 1; l <= len(v); l++ {
				if !pred(standardise(v[:l])) {
					ok = false
					break
				}
			}
			if ok {
				want = append(want, v)
			}
		}
		name := fmt.Sprintf("PermutationsByPattern(%d, %s seed=%d d=%d)", c.N, c.Pred, c.Seed, c.D)
		var bad error
		it := itertools.PermutationsByPattern(c.N, func(p []int) bool {
			if len(p) < 1 || len(p) > c.N || !isPermOf(p, len(p)) {
				bad = fmt.Errorf("%s: predicate called with %v (not a permutation of 0..%d)", name, p, len(p)-1)
				return false
			}
			return pred(p)
		})
		rec.NonTrivial(len(want) >= 1 && len(want) < len(all))
		err := drive(name, it.Next, func() any { return cp(it.Value()) }, toAny(want), false, false)
		if bad != nil {
			return bad
		}
		return err
	case "TopologicalSorts":
		rel := map[[2]int]bool{}
		for _, e := range c.Rel {
			rel[e] = true
		}
		var want [][]int
		var all [][]int
		if c.N <= 8 {
			all = allPermsLex(c.N)
			for _, v := range all {
				pos := make([]int, c.N)
				for i, x := range v {
					pos[x] = i
				}
				ok := true
				for e := range rel {
					if pos[e[0]] > pos[e[1]] {
						ok = false
					}
				}
				if ok {
					want = append(want, v)
				}
			}
			if le := linearExtensions(c.N, c.Rel, 1<<20); len(le) != len(want) {
				return fmt.Errorf("harness: the two oracles for topological sorts disagree on (%d, %v): %d vs %d", c.N, c.Rel, len(le), len(want))
			}
		} else {
			// long thin orders: tens of elements, few sorts
			want = linearExtensions(c.N, c.Rel, 200000)
			if len(want) >= 200000 {
				return fmt.Errorf("harness: generated order on %d elements has too many topological sorts", c.N)
			}
			all = make([][]int, len(want)+1)
			rec.Label("TopologicalSorts-long")
		}
		name := fmt.Sprintf("TopologicalSorts(%d, %v)", c.N, clipPairs(c.Rel))
		var bad error
		it := itertools.TopologicalSorts(c.N, func(i, j int) bool {
			if i < 0 || j < 0 || i >= c.N || j >= c.N {
				bad = fmt.Errorf("%s: less called with (%d,%d)", name, i, j)
				return false
			}
			return rel[[2]int{i, j}]
		})
		rec.NonTrivial(len(want) >= 2 && len(want) < len(all))
		var inner error
		err := drive(name, it.Next, func() any {
			v := cp(it.Value())
			inv := it.InverseValue()
			for pos, x := range v {
				if x < 0 || x >= len(inv) || inv[x] != pos {
					inner = fmt.Errorf("%s: InverseValue %v is not the inverse of Value %v", name, inv, v)
				}
			}
			return v
		}, toAny(want), false, false)
		if bad != nil {
			return bad
		}
		if inner != nil {
			return inner
		}
		return err
	}
	return fmt.Errorf("harness: unknown iterator %q", c.Iter)
}

func clipPairs(r [][2]int) string {
	if len(r) > 60 {
		return fmt.Sprintf("%v...(%d pairs)", r[:60], len(r))
	}
	return fmt.Sprint(r)
}

func isPermOf(p []int, n int) bool {
	if len(p) != n {
		return false
	}
	seen := make([]bool, n)
	for _, v := range p {
		if v < 0 || v >= n || seen[v] {
			return false
		}
		seen[v] = true
	}
	return true
}

var itNames = []string{"Combinations", "CombinationsColex", "MultisetCombinations", "Permutations", "LexicographicPermutations",
	"MultisetPermutations", "Partitions", "IntegerPartitions", "Product", "RestrictedPrefixProduct", "RestrictedPrefixPermutations",
	"PermutationsByPattern", "TopologicalSorts"}

func genItCase(t *rapid.T) itCase {
	c := itCase{Iter: rapid.SampledFrom(itNames).Draw(t, "iter")}
	maxN := sz(7, 8)
	genPred := func() {
		c.Pred = rapid.SampledFrom([]string{"hash", "hash", "hash", "all", "none", "nofixed", "ascending-pairs", "boundedsum"}).Draw(t, "pred")
		c.Seed = rapid.Uint64().Draw(t, "seed")
		c.D = rapid.SampledFrom([]int{1, 2, 3, 5}).Draw(t, "d")
	}
	switch c.Iter {
	case "Combinations", "CombinationsColex":
		c.N = rapid.IntRange(0, maxN+2).Draw(t, "n")
		c.K = rapid.IntRange(0, c.N+3).Draw(t, "k")
		if rapid.IntRange(0, 4).Draw(t, "thin") == 0 {
			// many elements, few subsets: k at either end of the range
			c.N = rapid.IntRange(10, 200).Draw(t, "bign")
			ks := []int{0, 1, c.N - 1, c.N, c.N, c.N + 1}
			if c.N <= 70 {
				ks = append(ks, 2, c.N-2)
			}
			if c.N <= 24 {
				ks = append(ks, 3, c.N-3)
			}
			c.K = rapid.SampledFrom(ks).Draw(t, "bigk")
		}
	case "MultisetCombinations":
		l := rapid.IntRange(0, 5).Draw(t, "len")
		c.M = make([]int, l)
		for i := range c.M {
			c.M[i] = rapid.IntRange(0, 3).Draw(t, "m")
		}
		c.K = rapid.IntRange(0, 8).Draw(t, "k")
	case "Permutations", "LexicographicPermutations":
		c.N = rapid.IntRange(0, maxN).Draw(t, "n")
	case "MultisetPermutations":
		l := rapid.IntRange(0, 5).Draw(t, "len")
		if rapid.IntRange(0, 3).Draw(t, "manytypes") == 0 {
			// 8, 16, 17... types, most of them absent: few elements in total, long frequency vector
			l = rapid.SampledFrom([]int{7, 8, 9, 15, 16, 17, 24, 32}).Draw(t, "ntypes")
			c.M = make([]int, l)
			for k := rapid.IntRange(0, 6).Draw(t, "nelems"); k > 0; k-- {
				c.M[rapid.IntRange(0, l-1).Draw(t, "which")]++
			}
			return c
		}
		c.M = make([]int, l)
		tot := 0
		for i := range c.M {
			c.M[i] = rapid.IntRange(0, 3).Draw(t, "f")
			tot += c.M[i]
			if tot > maxN+1 {
				c.M[i] = 0
			}
		}
	case "Partitions":
		c.N = rapid.IntRange(1, maxN+1).Draw(t, "n")
	case "IntegerPartitions":
		c.N = rapid.IntRange(0, sz(32, 45)).Draw(t, "n") // p(32) = 8349, p(45) = 89134: runs of nine and more equal parts occur
	case "Product", "RestrictedPrefixProduct":
		if c.Iter == "Product" && rapid.IntRange(0, 7).Draw(t, "huge") == 0 {
			// products whose size does not fit a machine word: many small factors, or a few large powers of two
			if rapid.Bool().Draw(t, "manysmall") {
				for i := rapid.IntRange(30, 80).Draw(t, "nfactors"); i > 0; i-- {
					c.M = append(c.M, rapid.SampledFrom([]int{1, 2, 2, 2, 3, 4}).Draw(t, "smallfactor"))
				}
			} else {
				for i := rapid.IntRange(2, 5).Draw(t, "nfactors"); i > 0; i-- {
					c.M = append(c.M, rapid.SampledFrom([]int{1 << 16, 1 << 31, 1 << 32, 1 << 62, 3037000500, 1000003}).Draw(t, "largefactor"))
				}
			}
			return c
		}
		l := rapid.IntRange(0, 5).Draw(t, "len")
		c.M = make([]int, l)
		for i := range c.M {
			c.M[i] = rapid.SampledFrom([]int{-1, 0, 1, 1, 2, 2, 3, 3, 4}).Draw(t, "factor")
		}
		if c.Iter == "RestrictedPrefixProduct" {
			genPred()
		}
	case "RestrictedPrefixPermutations", "PermutationsByPattern":
		c.N = rapid.IntRange(0, maxN).Draw(t, "n")
		genPred()
	case "TopologicalSorts":
		if rapid.IntRange(0, 4).Draw(t, "long") == 0 {
			// tens to a hundred and thirty elements, almost totally ordered: few sorts
			c.N = rapid.IntRange(9, 130).Draw(t, "longn")
			if rapid.Bool().Draw(t, "swappable") {
				// every pair i < j is imposed except up to 10 non-overlapping adjacent pairs: 2^s sorts
				free := map[int]bool{}
				for s := rapid.IntRange(0, 10).Draw(t, "s"); s > 0; s-- {
					a := rapid.IntRange(0, c.N-2).Draw(t, "a")
					if !free[a-1] && !free[a+1] {
						free[a] = true
					}
				}
				for j := 0; j < c.N; j++ {
					for i := 0; i < j; i++ {
						if !(j == i+1 && free[i]) {
							c.Rel = append(c.Rel, [2]int{i, j})
						}
					}
				}
			} else {
				// covering relations only (less need not be transitive): a chain on all but the last f elements, which are free
				f := rapid.IntRange(0, 2).Draw(t, "freeElems")
				if c.N > 60 {
					f = min(f, 1)
				}
				for i := 0; i+1 < c.N-f; i++ {
					c.Rel = append(c.Rel, [2]int{i, i + 1})
				}
			}
			if c.M == nil {
				c.M = []int{}
			}
			return c
		}
		c.N = rapid.IntRange(0, maxN).Draw(t, "n")
		dens := rapid.IntRange(0, 4).Draw(t, "density")
		for j := 0; j < c.N; j++ {
			for i := 0; i < j; i++ {
				if rapid.IntRange(0, 4).Draw(t, "edge") < dens {
					c.Rel = append(c.Rel, [2]int{i, j})
				}
			}
		}
	}
	if c.M == nil {
		c.M = []int{}
	}
	return c
}

// enumItBoundaries: every parameter tuple of the parameter-only iterators up to a small size, exhaustively.
func enumItBoundaries(yield func(itCase) bool) {
	lim := sz(6, 8)
	for n := 0; n <= lim+1; n++ {
		for k := 0; k <= n+3; k++ {
			if !yield(itCase{Iter: "Combinations", N: n, K: k, M: []int{}}) || !yield(itCase{Iter: "CombinationsColex", N: n, K: k, M: []int{}}) {
				return
			}
		}
	}
	for n := 0; n <= lim; n++ {
		for _, it := range []string{"Permutations", "LexicographicPermutations", "IntegerPartitions"} {
			if !yield(itCase{Iter: it, N: n, M: []int{}}) {
				return
			}
		}
		if n >= 1 {
			if !yield(itCase{Iter: "Partitions", N: n, M: []int{}}) {
				return
			}
		}
	}
	// ten and more blocks (115975 partitions of a 10-set; thorough also 11)
	for n := 9; n <= sz(10, 11); n++ {
		if !yield(itCase{Iter: "Partitions", N: n, M: []int{}}) {
			return
		}
	}
	// multiplicity vectors of 8, 16, 17 types
	for _, l := range []int{8, 16, 17} {
		m := make([]int, l)
		m[0], m[l-1], m[l/2] = 1, 2, 1
		if !yield(itCase{Iter: "MultisetPermutations", M: m}) || !yield(itCase{Iter: "MultisetCombinations", M: m, K: 2}) {
			return
		}
	}
	// all multiplicity / factor vectors of length <= 3 with entries 0..2 (factors also -1 and 3)
	var vecs [][]int
	var rec func(cur []int, l int, vals []int)
	rec = func(cur []int, l int, vals []int) {
		vecs = append(vecs, append([]int{}, cur...))
		if len(cur) == l {
			return
		}
		for _, v := range vals {
			rec(append(cur, v), l, vals)
		}
	}
	rec([]int{}, 3, []int{0, 1, 2})
	for _, m := range vecs {
		tot := 0
		for _, v := range m {
			tot += v
		}
		for k := 0; k <= tot+1; k++ {
			if !yield(itCase{Iter: "MultisetCombinations", M: m, K: k}) {
				return
			}
		}
		if !yield(itCase{Iter: "MultisetPermutations", M: m}) {
			return
		}
	}
	vecs = nil
	rec([]int{}, 3, []int{-1, 0, 1, 2, 3})
	for _, m := range vecs {
		if !yield(itCase{Iter: "Product", M: m}) {
			return
		}
	}
}

func init() {
	RegisterRapid("C15_generated",
		"rapid: one of the 13 iterators with generated parameters (n up to 7/8, k up to n+3, factor lists with -1/0/1 entries, multiplicity vectors with zeros and the empty vector; predicates: hash(seed,prefix) mod d != 0 with d in {1,2,3,5}, accept-all, reject-all, no-fixed-point, bounded-descent, bounded-sum; TopologicalSorts: generated sub-relations of i<j at five densities). Oracle: brute-force enumeration of the advertised family in the documented order (ordered comparison where an order is documented, duplicate-free set otherwise); Next is driven at most family+3 times so over-production is caught without timing; three further Next calls after exhaustion must be false for the parameter-only iterators. Non-trivial: family size >= 2 or a boundary parameter; for predicate iterators: some but not all members accepted.",
		Budget{Checks: 6000, Shards: 1}, Budget{Checks: 40000, Shards: 16}, genItCase, checkItCase)
	RegisterEnum("C15_boundaries",
		"enumeration: Combinations/CombinationsColex for all n <= 7 (thorough 9), k <= n+3; Permutations, LexicographicPermutations, IntegerPartitions for all n <= 6 (8); Partitions for 1 <= n <= 6 (8); MultisetCombinations (all k <= total+1) and MultisetPermutations for every multiplicity vector of length <= 3 over {0,1,2}; Product for every factor vector of length <= 3 over {-1,0,1,2,3}. Same oracle as C15_generated.",
		true, Budget{Shards: 1}, Budget{Shards: 1}, enumItBoundaries, checkItCase)
}
