package props

import (
	"fmt"
	"math/big"
	"sort"

	"github.com/Tom-Johnston/mamba/disjoint"
	"github.com/Tom-Johnston/mamba/graph"
	"pgregory.net/rapid"
	"verifharness/oracle"
)

// C01: canonical labelling is a complete isomorphism invariant.
// C02: orbits and generators describe exactly Aut(g); storage reuse; vertex classes.

// wlDiscrete reports whether 1-dimensional colour refinement (starting from one class) separates all vertices.
func wlDiscrete(g *oracle.G) bool {
	n := g.N
	col := make([]int, n)
	for {
		sig := make([]string, n)
		for v := 0; v < n; v++ {
			var nb []int
			for _, u := range g.Nbrs(v) {
				nb = append(nb, col[u])
			}
			sort.Ints(nb)
			sig[v] = fmt.Sprint(col[v], nb)
		}
		uniq := map[string]int{}
		keys := append([]string{}, sig...)
		sort.Strings(keys)
		for _, k := range keys {
			if _, ok := uniq[k]; !ok {
				uniq[k] = len(uniq)
			}
		}
		newCol := make([]int, n)
		for v := range newCol {
			newCol[v] = uniq[sig[v]]
		}
		same := distinctCount(newCol) == distinctCount(col)
		col = newCol
		if same {
			break
		}
	}
	return distinctCount(col) == n
}

func isRegular(g *oracle.G) bool {
	d := g.Degs()
	for _, x := range d {
		if x != d[0] {
			return false
		}
	}
	return g.N > 0
}

type canonCase struct {
	G     GSpec
	Perms [][]int // relabellings pi; the relabelled graph is G.Induced(pi)
	Other GSpec   // a second graph on the same vertex set (degree-preserving switch of G, or unrelated)
}

func genCanonCase(t *rapid.T, maxN, nperms int) canonCase {
	g := genAnyGraph(t, maxN)
	if rapid.IntRange(0, 3).Draw(t, "largecells") == 0 {
		g = genLargeSymmetric(t, sz(36, 44))
	}
	c := canonCase{G: specOf(g)}
	for i := 0; i < nperms; i++ {
		c.Perms = append(c.Perms, genPerm(t, g.N, "pi"))
	}
	// second graph: g with one double-edge switch (same degree sequence, often non-isomorphic), relabelled
	h := g.Copy()
	es := h.Edges()
	if len(es) >= 2 {
		e1 := es[rapid.IntRange(0, len(es)-1).Draw(t, "s1")]
		e2 := es[rapid.IntRange(0, len(es)-1).Draw(t, "s2")]
		a, b, cc, d := e1[0], e1[1], e2[0], e2[1]
		if a != cc && a != d && b != cc && b != d && !h.Has(a, cc) && !h.Has(b, d) {
			h.Del(a, b)
			h.Del(cc, d)
			h.Add(a, cc)
			h.Add(b, d)
		}
	}
	h = h.Induced(genPerm(t, h.N, "pi-other"))
	c.Other = specOf(h)
	return c
}

// canonicalGraphOf returns mamba's canonical graph of g (as a model), checking that the permutation is one
// and that the dense, sparse and view inputs agree.
func canonicalGraphOf(g *oracle.G) (*oracle.G, error) {
	var keys []string
	var first *oracle.G
	for _, rep := range []string{"dense", "sparse", "cocomp", "dense-bytes"} {
		gr := repOf(g, rep)
		var p []int
		if pn := try(func() { p = graph.CanonicalIsomorph(gr) }); pn != nil {
			return nil, fmt.Errorf("CanonicalIsomorph(%s, n=%d %v) panicked: %v", rep, g.N, clipEdges(g), pn)
		}
		if !oracle.IsPerm(p, g.N) {
			return nil, fmt.Errorf("CanonicalIsomorph(%s, n=%d %v) = %v is not a permutation of 0..%d", rep, g.N, clipEdges(g), p, g.N-1)
		}
		watchPerm(fmt.Sprintf("CanonicalIsomorph(%s, n=%d)", rep, g.N), p)
		cg := g.Induced(p)
		// the library's own relabelling must give the same labelled graph
		if eg, ok := gr.(graph.EditableGraph); ok {
			var sub graph.EditableGraph
			if pn := try(func() { sub = eg.InducedSubgraph(p) }); pn != nil {
				return nil, fmt.Errorf("InducedSubgraph(%v) panicked: %v", p, pn)
			}
			if err := sameAs(fmt.Sprintf("g.InducedSubgraph(CanonicalIsomorph(g)) (%s)", rep), sub, cg); err != nil {
				return nil, err
			}
		}
		keys = append(keys, cg.Key())
		if first == nil {
			first = cg
		}
	}
	for _, k := range keys[1:] {
		if k != keys[0] {
			return nil, fmt.Errorf("canonical graph depends on the representation (n=%d %v)", g.N, clipEdges(g))
		}
	}
	return first, nil
}

// permWatch remembers slices returned by the library together with a copy taken at once; a later call must not
// change what an earlier call returned.
type permWatch struct {
	live, copy []int
	what       string
}

var watchedPerms []permWatch

func watchPerm(what string, p []int) {
	watchedPerms = append(watchedPerms, permWatch{live: p, copy: append([]int{}, p...), what: what})
}

func checkWatchedPerms() error {
	defer func() { watchedPerms = watchedPerms[:0] }()
	for _, w := range watchedPerms {
		if !eqInts(w.live, w.copy) {
			return fmt.Errorf("the permutation returned by %s changed from %v to %v when CanonicalIsomorph was called again", w.what, w.copy, w.live)
		}
	}
	// ... and the caller may do with a returned labelling what it likes: overwrite every one of them; a later call
	// (in this or a later case) must not see that
	for _, w := range watchedPerms {
		for i := range w.live {
			w.live[i] = -1
		}
	}
	return nil
}

func checkCanonCase(c canonCase, rec *Rec) error {
	watchedPerms = watchedPerms[:0]
	if err := checkCanonCaseInner(c, rec); err != nil {
		return err
	}
	return checkWatchedPerms()
}

func checkCanonCaseInner(c canonCase, rec *Rec) error {
	g := c.G.Model()
	discrete := wlDiscrete(g)
	rec.NonTrivial(!discrete)
	rec.Labelf("wl-discrete-%v", discrete)
	rec.Labelf("regular-%v", isRegular(g))
	base, err := canonicalGraphOf(g)
	if err != nil {
		return err
	}
	for _, pi := range c.Perms {
		h := g.Induced(pi)
		ch, err := canonicalGraphOf(h)
		if err != nil {
			return err
		}
		if !ch.Equal(base) {
			return fmt.Errorf("canonical graphs of g and pi(g) differ: g = n=%d %v, pi = %v; canon(g) = %v, canon(pi(g)) = %v",
				g.N, clipEdges(g), pi, clipEdges(base), clipEdges(ch))
		}
	}
	// completeness in the other direction: equal canonical graph iff isomorphic (oracle decides isomorphism)
	o := c.Other.Model()
	if o.N == g.N && g.N <= 12 {
		co, err := canonicalGraphOf(o)
		if err != nil {
			return err
		}
		iso := oracle.Canon(g) == oracle.Canon(o)
		rec.Labelf("other-isomorphic-%v", iso)
		if co.Equal(base) != iso {
			return fmt.Errorf("graphs n=%d %v and %v are isomorphic=%v but equal canonical graphs=%v", g.N, clipEdges(g), clipEdges(o), iso, co.Equal(base))
		}
	}
	return nil
}

// enumClassesCanon: every isomorphism class up to maxN under R relabellings derived from the seed.
func enumClassesCanon(maxN func() int, perms func() int, onlyRegular bool) func(yield func(canonCase) bool) {
	return func(yield func(canonCase) bool) {
		idx := 0
		for n := 0; n <= maxN(); n++ {
			for _, g := range oracle.IsoClasses(n) {
				if onlyRegular && !isRegular(g) {
					continue
				}
				idx++
				if idx%NShards != Shard {
					continue
				}
				rng := newPrng(Seed, uint64(idx), uint64(n))
				c := canonCase{G: specOf(g), Other: specOf(g.Induced(rng.perm(n)))}
				for r := 0; r < perms(); r++ {
					c.Perms = append(c.Perms, rng.perm(n))
				}
				if !yield(c) {
					return
				}
			}
		}
	}
}

type distinctCase struct{ N int }

// checkDistinctClasses: over all classes on N vertices the canonical graphs are pairwise different.
func checkDistinctClasses(c distinctCase, rec *Rec) error {
	classes := oracle.IsoClasses(c.N)
	seen := map[string]int{}
	rng := newPrng(Seed, uint64(c.N), 77)
	for i, g := range classes {
		cg, err := canonicalGraphOf(g.Induced(rng.perm(c.N)))
		if err != nil {
			return err
		}
		if j, dup := seen[cg.Key()]; dup {
			return fmt.Errorf("non-isomorphic graphs %v and %v (n=%d) get the same canonical graph", clipEdges(classes[j]), clipEdges(g), c.N)
		}
		seen[cg.Key()] = i
	}
	rec.NonTrivial(len(classes) >= 2)
	SetExtra(fmt.Sprintf("classes_n%d", c.N), len(classes))
	return nil
}

// vertex-transitive graphs on <= 8 vertices under ALL relabellings
type allPermsCase struct {
	Name string
	G    GSpec
}

func checkAllPerms(c allPermsCase, rec *Rec) error {
	g := c.G.Model()
	rec.NonTrivial(true)
	base, err := canonicalGraphOf(g)
	if err != nil {
		return err
	}
	count := 0
	for _, pi := range allPermsLex(g.N) {
		h := g.Induced(pi)
		var p []int
		if pn := try(func() { p = graph.CanonicalIsomorph(denseOf(h)) }); pn != nil {
			return fmt.Errorf("CanonicalIsomorph panicked on %s relabelled by %v: %v", c.Name, pi, pn)
		}
		if !oracle.IsPerm(p, g.N) {
			return fmt.Errorf("CanonicalIsomorph(%s relabelled by %v) = %v is not a permutation", c.Name, pi, p)
		}
		if !h.Induced(p).Equal(base) {
			return fmt.Errorf("canonical graph of %s (n=%d %v) changes under the relabelling %v", c.Name, g.N, clipEdges(g), pi)
		}
		count++
	}
	SetExtra("relabellings_of_"+c.Name, count)
	return nil
}

func enumVertexTransitive(yield func(allPermsCase) bool) {
	list := []allPermsCase{
		{"C5", specOf(mCycle(5))}, {"C6", specOf(mCycle(6))}, {"C7", specOf(mCycle(7))}, {"K33", specOf(mCompleteMultipartite([]int{3, 3}))},
		{"prism", specOf(mProduct("cartesian", mCycle(3), mPath(2)))}, {"2C3", specOf(oracle.DisjointUnion(mCycle(3), mCycle(3)))},
		{"3K2", specOf(mCirculant(6, []int{3}))}, {"octahedron", specOf(mCompleteMultipartite([]int{2, 2, 2}))},
		{"C7(1,2)", specOf(mCirculant(7, []int{1, 2}))},
	}
	if Thorough {
		list = append(list,
			allPermsCase{"Q3", specOf(mHypercube(3))}, allPermsCase{"C8", specOf(mCycle(8))}, allPermsCase{"2C4", specOf(oracle.DisjointUnion(mCycle(4), mCycle(4)))},
			allPermsCase{"C8(1,4)", specOf(mCirculant(8, []int{1, 4}))}, allPermsCase{"C8(1,2)", specOf(mCirculant(8, []int{1, 2}))},
			allPermsCase{"C8(1,3)", specOf(mCirculant(8, []int{1, 3}))}, allPermsCase{"K44", specOf(mCompleteMultipartite([]int{4, 4}))},
			allPermsCase{"2K4", specOf(oracle.DisjointUnion(mComplete(4), mComplete(4)))}, allPermsCase{"4K2", specOf(mCirculant(8, []int{4}))},
			allPermsCase{"K2222", specOf(mCompleteMultipartite([]int{2, 2, 2, 2}))}, allPermsCase{"Q3-complement", specOf(mHypercube(3).Complement())},
			allPermsCase{"G|WW}K-4regular", specOf(mustG6("G|WW}K"))}, allPermsCase{"GhcqSK-cubic", specOf(mustG6("GhcqSK"))})
	}
	for i, c := range list {
		if i%NShards != Shard {
			continue
		}
		if !yield(c) {
			return
		}
	}
}

func mustG6(s string) *oracle.G {
	g, err := oracle.ParseGraph6(s)
	if err != nil {
		panic(err)
	}
	return g
}

// ---- C02 ------------------------------------------------------------------------------------

func orbitLabels(ds disjoint.Set, n int) ([]int, error) {
	if n == 0 {
		return []int{}, nil
	}
	if len(ds) != n {
		return nil, fmt.Errorf("orbit structure has length %d for a graph on %d vertices", len(ds), n)
	}
	cp := append(disjoint.Set(nil), ds...)
	for i := 0; i < n; i++ {
		if rawDepth(cp, i) < 0 {
			return nil, fmt.Errorf("orbit structure is malformed: %v", []int(ds))
		}
	}
	rep := make([]int, n)
	least := map[int]int{}
	for i := 0; i < n; i++ {
		rep[i] = cp.Find(i)
		if _, ok := least[rep[i]]; !ok {
			least[rep[i]] = i
		}
	}
	out := make([]int, n)
	for i := range out {
		out[i] = least[rep[i]]
	}
	return out, nil
}

// checkAutData validates (perm, orbits, generators) of g against the class-preserving automorphism group.
func checkAutData(what string, g *oracle.G, class []int, perm []int, orbits disjoint.Set, gens [][]int) error {
	n := g.N
	if !oracle.IsPerm(perm, n) {
		return fmt.Errorf("%s: permutation %v is not a permutation of 0..%d", what, perm, n-1)
	}
	for _, p := range gens {
		if !oracle.IsPerm(p, n) {
			return fmt.Errorf("%s: generator %v is not a permutation", what, p)
		}
		if !oracle.IsAutomorphism(g, p, class) {
			return fmt.Errorf("%s: generator %v is not an automorphism (n=%d %v classes %v)", what, p, n, clipEdges(g), class)
		}
	}
	got, err := orbitLabels(orbits, n)
	if err != nil {
		return fmt.Errorf("%s: %v", what, err)
	}
	want := oracle.AutOrbits(g, class)
	if !eqInts(got, want) {
		return fmt.Errorf("%s: orbits %v, the orbits of the automorphism group are %v (n=%d %v classes %v)", what, got, want, n, clipEdges(g), class)
	}
	order := oracle.GroupOrder(n, gens)
	if wantOrder := oracle.AutOrder(g, class); order.Cmp(wantOrder) != 0 {
		return fmt.Errorf("%s: the %d generators generate a group of order %v, |Aut| = %v (n=%d %v classes %v)", what, len(gens), order, wantOrder, n, clipEdges(g), class)
	}
	return nil
}

type autCase struct{ G GSpec }

func checkAutCase(c autCase, rec *Rec) error {
	g := c.G.Model()
	order := oracle.AutOrder(g, nil)
	rec.NonTrivial(order.Cmp(big.NewInt(1)) > 0)
	switch {
	case order.Cmp(big.NewInt(1)) == 0:
		rec.Label("aut-1")
	case order.Cmp(big.NewInt(int64(g.N))) <= 0:
		rec.Label("aut-2..n")
	default:
		rec.Label("aut->n")
	}
	repList := []string{"dense", "sparse", "dense-bytes", "induced-reversed"}
	if g.N > 20 {
		repList = []string{"sparse", "dense-bytes"} // the oracle dominates the cost on large graphs
	}
	for _, rep := range repList {
		var perm []int
		var orbits disjoint.Set
		var gens [][]int
		if p := try(func() { perm, orbits, gens = graph.CanonicalIsomorphFull(repOf(g, rep), nil) }); p != nil {
			return fmt.Errorf("CanonicalIsomorphFull(%s n=%d %v) panicked: %v", rep, g.N, clipEdges(g), p)
		}
		if err := checkAutData("CanonicalIsomorphFull("+rep+")", g, nil, perm, orbits, gens); err != nil {
			return err
		}
		scribbleCanonResult(perm, orbits, gens)
	}
	return nil
}

// scribbleCanonResult overwrites what CanonicalIsomorphFull returned (fresh values that belong to the caller).
func scribbleCanonResult(perm []int, orbits disjoint.Set, gens [][]int) {
	for i := range perm {
		perm[i] = -1
	}
	for i := range orbits {
		orbits[i] = -7
	}
	for _, g := range gens {
		for i := range g {
			g[i] = -2
		}
	}
}

type reuseCase struct {
	CapN, CapM int
	Gs         []GSpec
	Classes    [][][]int // per graph: nil = no vertex classes, otherwise an ordered partition of its vertices
}

func genReuseCase(t *rapid.T) reuseCase {
	k := rapid.IntRange(2, sz(8, 30)).Draw(t, "k")
	c := reuseCase{}
	for i := 0; i < k; i++ {
		var g *oracle.G
		switch rapid.IntRange(0, 5).Draw(t, "rkind") {
		case 0:
			g = oracle.New(rapid.IntRange(0, 6).Draw(t, "n")) // edgeless, incl. n = 0
		case 1:
			g = mComplete(rapid.IntRange(1, 6).Draw(t, "n"))
		case 2:
			g = genLargeSymmetric(t, sz(26, 40))
		default:
			g = genAnyGraph(t, sz(9, 12))
		}
		c.Gs = append(c.Gs, specOf(g))
		var classes [][]int
		if g.N > 0 && rapid.IntRange(0, 2).Draw(t, "withclasses") == 0 {
			k := rapid.IntRange(1, 4).Draw(t, "nclasses")
			tmp := make([][]int, k)
			for _, v := range genPerm(t, g.N, "shuffle") {
				ci := rapid.IntRange(0, k-1).Draw(t, "class")
				tmp[ci] = append(tmp[ci], v)
			}
			for _, cl := range tmp {
				if len(cl) > 0 {
					classes = append(classes, cl)
				}
			}
		}
		c.Classes = append(c.Classes, classes)
		c.CapN = max(c.CapN, g.N)
		c.CapM = max(c.CapM, g.M())
	}
	c.CapN = max(1, c.CapN+rapid.IntRange(0, 3).Draw(t, "slackN"))
	c.CapM += rapid.IntRange(0, 5).Draw(t, "slackM")
	return c
}

func copyGens(g [][]int) [][]int {
	out := make([][]int, len(g))
	for i := range g {
		out[i] = append([]int{}, g[i]...)
	}
	return out
}

func checkReuseCase(c reuseCase, rec *Rec) error {
	var storage *graph.CanonicalStorage
	var op *graph.CanonicalOrderedPartition
	if p := try(func() {
		storage = graph.NewStorage(c.CapN, c.CapM)
		op = graph.NewOrderedPartition(c.CapN, c.CapM, nil)
	}); p != nil {
		return fmt.Errorf("NewStorage/NewOrderedPartition(%d,%d) panicked: %v", c.CapN, c.CapM, p)
	}
	shrinks := false
	prevN := -1
	for i, s := range c.Gs {
		g := s.Model()
		if prevN > g.N {
			shrinks = true
		}
		prevN = g.N
		n, m := g.N, g.M()
		var classes [][]int
		var cv []int
		if i < len(c.Classes) && c.Classes[i] != nil {
			classes = c.Classes[i]
			cv = classVector(classes, n)
		}
		copyClasses := func() [][]int {
			if classes == nil {
				return nil
			}
			out := make([][]int, len(classes))
			for k := range classes {
				out[k] = append([]int{}, classes[k]...)
			}
			return out
		}
		nb := make([][]int, n)
		for v := range nb {
			nb[v] = g.Nbrs(v)
		}
		var perm []int
		var orbits disjoint.Set
		var gens [][]int
		passed := copyClasses()
		if p := try(func() {
			op.Reset(n, m, passed)
			perm, orbits, gens = graph.CanonicalIsomorphAllocated(n, m, nb, op, storage, new(graph.CanonicalOptions))
		}); p != nil {
			return fmt.Errorf("graph #%d (n=%d %v classes %v) through reused storage (cap %d,%d) panicked: %v", i, n, clipEdges(g), classes, c.CapN, c.CapM, p)
		}
		for k := range classes {
			if !eqInts(passed[k], classes[k]) {
				return fmt.Errorf("graph #%d: Reset/CanonicalIsomorphAllocated modified the vertex classes it was given: %v became %v", i, classes, passed)
			}
		}
		// results alias the storage: copy them out
		perm = append([]int{}, perm...)
		orbits = append(disjoint.Set(nil), orbits...)
		gens = copyGens(gens)
		what := fmt.Sprintf("graph #%d of %d (n=%d %v classes %v) through reused storage (cap %d,%d)", i, len(c.Gs), n, clipEdges(g), classes, c.CapN, c.CapM)
		if err := checkAutData(what, g, cv, perm, orbits, gens); err != nil {
			return err
		}
		var fperm []int
		var forbits disjoint.Set
		var fgens [][]int
		if p := try(func() { fperm, forbits, fgens = graph.CanonicalIsomorphFull(denseOf(g), copyClasses()) }); p != nil {
			return fmt.Errorf("fresh CanonicalIsomorphFull panicked: %v", p)
		}
		if !eqInts(perm, fperm) {
			return fmt.Errorf("%s: permutation %v differs from a fresh call's %v", what, perm, fperm)
		}
		a, _ := orbitLabels(orbits, n)
		b, _ := orbitLabels(forbits, n)
		if !eqInts(a, b) {
			return fmt.Errorf("%s: orbits %v differ from a fresh call's %v", what, a, b)
		}
		if fmt.Sprint(gens) != fmt.Sprint(copyGens(fgens)) {
			return fmt.Errorf("%s: generators %v differ from a fresh call's %v", what, gens, fgens)
		}
	}
	rec.NonTrivial(shrinks)
	rec.Labelf("history-length-%d", bucket(len(c.Gs)))
	return nil
}

type classCaseV struct {
	G       GSpec
	Classes [][]int // ordered partition of the vertex set, lists in any order
	Perm    []int   // relabelling
}

func genClassCase(t *rapid.T) classCaseV {
	g := genAnyGraph(t, sz(8, 11))
	k := rapid.IntRange(1, 4).Draw(t, "nclasses")
	classes := make([][]int, k)
	for _, v := range genPerm(t, g.N, "shuffle") {
		ci := rapid.IntRange(0, k-1).Draw(t, "class")
		classes[ci] = append(classes[ci], v)
	}
	var nonEmpty [][]int
	for _, cl := range classes {
		if len(cl) > 0 {
			nonEmpty = append(nonEmpty, cl)
		}
	}
	if nonEmpty == nil {
		nonEmpty = [][]int{}
	}
	return classCaseV{G: specOf(g), Classes: nonEmpty, Perm: genPerm(t, g.N, "pi")}
}

func classVector(classes [][]int, n int) []int {
	cv := make([]int, n)
	for ci, cl := range classes {
		for _, v := range cl {
			cv[v] = ci
		}
	}
	return cv
}

func checkClassCase(c classCaseV, rec *Rec) error {
	g := c.G.Model()
	n := g.N
	if n == 0 {
		return nil
	}
	cv := classVector(c.Classes, n)
	run := func(what string, h *oracle.G, classes [][]int) (*oracle.G, []int, error) {
		hv := classVector(classes, n)
		in := make([][]int, len(classes))
		for i := range classes {
			in[i] = append([]int{}, classes[i]...)
		}
		var perm []int
		var orbits disjoint.Set
		var gens [][]int
		if p := try(func() { perm, orbits, gens = graph.CanonicalIsomorphFull(denseOf(h), in) }); p != nil {
			return nil, nil, fmt.Errorf("%s: CanonicalIsomorphFull(n=%d %v, classes %v) panicked: %v", what, n, clipEdges(h), classes, p)
		}
		for i := range classes {
			if !eqInts(in[i], classes[i]) {
				return nil, nil, fmt.Errorf("%s: CanonicalIsomorphFull modified the vertex classes it was given", what)
			}
		}
		if err := checkAutData(what, h, hv, perm, orbits, gens); err != nil {
			return nil, nil, err
		}
		// the permutation lists class 0 first, then class 1, ...
		posClass := make([]int, n)
		for k, v := range perm {
			posClass[k] = hv[v]
		}
		if !sort.IntsAreSorted(posClass) {
			return nil, nil, fmt.Errorf("%s: permutation %v does not list the classes %v in order (classes by position: %v)", what, perm, classes, posClass)
		}
		return h.Induced(perm), posClass, nil
	}
	base, basePos, err := run("classes", g, c.Classes)
	if err != nil {
		return err
	}
	// relabel: vertex i of the new graph is old vertex Perm[i]; classes are transported
	inv := invPerm(c.Perm)
	h := g.Induced(c.Perm)
	tc := make([][]int, len(c.Classes))
	for i, cl := range c.Classes {
		for _, v := range cl {
			tc[i] = append(tc[i], inv[v])
		}
	}
	ch, chPos, err := run("relabelled classes", h, tc)
	if err != nil {
		return err
	}
	if !ch.Equal(base) || !eqInts(basePos, chPos) {
		return fmt.Errorf("canonical graph with vertex classes changes under relabelling: g n=%d %v classes %v, pi=%v", n, clipEdges(g), c.Classes, c.Perm)
	}
	rec.NonTrivial(oracle.AutOrder(g, cv).Cmp(big.NewInt(1)) > 0 && len(c.Classes) >= 2)
	rec.Labelf("classes-%d", len(c.Classes))
	return nil
}

func init() {
	RegisterRapid("C01_canonical_invariance",
		"rapid: graph from the mixed generator biased to symmetric inputs (random d-regular graphs by edge switching, circulants, Cayley graphs of Z_a x Z_b, hypercubes, Petersen/Kneser/Johnson/Paley/Shrikhande/rook/generalised Petersen, complete multipartite, products, k disjoint copies (+ another component), joins, wheels, G(n,p)); optional complement, 0-2 toggled edges, isolated/universal vertex; n <= 12 (quick) / 20 (thorough), and in a quarter of the cases graphs on 13..36 (44) vertices whose refinement leaves cells of 13..36 vertices (unions of 2-4 cycles, 2-3 copies of a 7..13-vertex graph, Latin-square graphs of order 3..6, random regular graphs on 14..30 vertices, complete multipartite graphs with parts up to 14, rook/Kneser/Johnson/hypercube/Paley graphs, sparse graphs with many leaves); 4 (8) uniform relabellings pi. CanonicalIsomorph must return a permutation (dense, sparse and view inputs agree; g.InducedSubgraph(perm) equals the model's relabelling) and the canonical graphs of g and every pi(g) must be identical; a second graph (a degree-preserving edge switch of g, relabelled) must get the same canonical graph iff the oracle's individualisation-refinement canonical form says they are isomorphic. Non-trivial: 1-WL colour refinement does not individualise all vertices (the search tree must branch).",
		Budget{Checks: 2500, Shards: 1}, Budget{Checks: 6000, Shards: 16},
		func(t *rapid.T) canonCase { return genCanonCase(t, sz(12, 20), sz(4, 8)) }, checkCanonCase)
	RegisterEnum("C01_all_classes",
		"enumeration: EVERY isomorphism class on n <= 7 (quick; 1253 classes x 6 relabellings) / n <= 9 (thorough; 288267 classes x 8 relabellings), classes from the oracle's own extension procedure, relabellings derived from VERIF_SEED: canonical graph invariant under every relabelling. Complete up to isomorphism for that range.",
		true, Budget{Shards: 1}, Budget{Shards: 16},
		enumClassesCanon(func() int { return sz(7, 9) }, func() int { return sz(6, 8) }, false), checkCanonCase)
	RegisterEnum("C01_regular_classes_n9",
		"enumeration (thorough only does n = 9): every REGULAR graph among the isomorphism classes on n <= 8 (quick) / n <= 9 (thorough; 274668 classes filtered) x 16 (64) relabellings.",
		true, Budget{Shards: 1}, Budget{Shards: 8},
		enumClassesCanon(func() int { return sz(8, 9) }, func() int { return sz(16, 64) }, true), checkCanonCase)
	RegisterEnum("C01_distinct_classes",
		"enumeration: for each n <= 7 (quick) / 8 (thorough) the canonical graphs of all classes (each under a seed-derived relabelling) are pairwise different, i.e. equal canonical graph implies isomorphic. One case per n.",
		true, Budget{Shards: 1}, Budget{Shards: 1},
		func(yield func(distinctCase) bool) {
			for n := 0; n <= sz(7, 8); n++ {
				if !yield(distinctCase{n}) {
					return
				}
			}
		}, checkDistinctClasses)
	RegisterEnum("C01_vertex_transitive_all_relabellings",
		"enumeration: named vertex-transitive graphs with n <= 7 (quick: C5, C6, C7, K33, prism, 2C3, 3K2, octahedron, C7(1,2)) and n = 8 (thorough adds Q3, C8, 2C4, three circulants, K44, 2K4, 4K2, K2222, the complement of Q3 and the two 8-vertex regular graphs G|WW}K and GhcqSK) under ALL n! relabellings.",
		true, Budget{Shards: 1}, Budget{Shards: 8}, enumVertexTransitive, checkAllPerms)

	RegisterRapid("C02_aut_fresh",
		"rapid: same symmetric-biased generator, n <= 12 (quick) / 20 (thorough) plus edgeless/complete/n<=2, a quarter of the cases from the large-cell families on 13..30 (40) vertices. CanonicalIsomorphFull(g, nil) on dense and sparse inputs: every generator is a permutation and an automorphism, the returned orbit partition equals the orbit partition of Aut(g) computed by an independent existence-of-automorphism search (both directions), and the group generated by the returned generators (own Schreier-Sims) has order |Aut(g)| (stabiliser-chain oracle), hence is all of Aut(g). Non-trivial: |Aut(g)| > 1.",
		Budget{Checks: 1500, Shards: 1}, Budget{Checks: 2500, Shards: 16},
		func(t *rapid.T) autCase {
			if rapid.IntRange(0, 3).Draw(t, "largecells") == 0 {
				return autCase{specOf(genLargeSymmetric(t, sz(30, 40)))}
			}
			return autCase{specOf(genAnyGraph(t, sz(12, 20)))}
		}, checkAutCase)
	RegisterRapid("C02_storage_reuse",
		"rapid: a history of 2..8 (thorough 30) graphs (mixed generator n <= 9/12, edgeless incl. n = 0, complete) pushed through ONE NewStorage/NewOrderedPartition pair sized for the largest plus slack, Reset before each call, a third of the graphs with an ordered partition into 1..4 vertex classes (so the number of root cells goes up and down as well); results are copied out and must (a) satisfy the C02_aut_fresh checks and (b) equal a fresh CanonicalIsomorphFull call: same permutation, same orbit partition, same generator list. Non-trivial: some graph has fewer vertices than its predecessor.",
		Budget{Checks: 600, Shards: 1}, Budget{Checks: 1000, Shards: 16}, genReuseCase, checkReuseCase)
	RegisterRapid("C02_vertex_classes",
		"rapid: graph (n <= 8/11) with an ordered partition of the vertices into 1..4 classes given as lists in arbitrary order, and a relabelling. CanonicalIsomorphFull(g, classes): permutation lists class 0 first, then class 1, ...; orbits/generators are checked against the class-preserving automorphism group; relabelling g and transporting the classes gives the identical canonical graph with the same class at every position. Non-trivial: >= 2 classes and a non-trivial class-preserving automorphism.",
		Budget{Checks: 1500, Shards: 1}, Budget{Checks: 10000, Shards: 8}, genClassCase, checkClassCase)
}
