package props

import (
	"fmt"

	"github.com/Tom-Johnston/mamba/graph"
	"pgregory.net/rapid"
	"verifharness/oracle"
)

// C09 on 9..13 vertices, where exact colouring needs real backtracking (chi > omega is common): only the exact
// colouring functions, against a small-integer O(3^n) oracle.

type midCase struct{ G GSpec }

func genMidCase(t *rapid.T) midCase {
	n := rapid.IntRange(9, sz(11, 13)).Draw(t, "n")
	var g *oracle.G
	switch rapid.IntRange(0, 3).Draw(t, "midkind") {
	case 0:
		g = mMycielski(genGnp(t, (n-1)/2))
	case 1:
		g = genRegular(t, n)
	default:
		g = oracle.New(n)
		num := rapid.IntRange(2, 6).Draw(t, "dens")
		for j := 0; j < n; j++ {
			for i := 0; i < j; i++ {
				if rapid.IntRange(0, 7).Draw(t, "e") < num {
					g.Add(i, j)
				}
			}
		}
	}
	if g.N > 1 {
		g = g.Induced(genPerm(t, g.N, "relabel"))
	}
	return midCase{specOf(g)}
}

func checkMidCase(c midCase, rec *Rec) error {
	g := c.G.Model()
	chi := oracle.ChromaticNumberFast(g)
	omega := oracle.CliqueNumber(g)
	rec.NonTrivial(chi > omega)
	rec.Labelf("chi-minus-omega=%d", chi-omega)
	for _, rep := range []string{"dense", "sparse"} {
		gr := repOf(g, rep)
		what := fmt.Sprintf("[%s, n=%d %v]", rep, g.N, clipEdges(g))
		var got int
		var col []int
		if p := try(func() { got, col = graph.ChromaticNumber(gr) }); p != nil {
			return fmt.Errorf("%s ChromaticNumber panicked: %v", what, p)
		}
		if got != chi || !properOn(g, col) || distinctCount(col) != chi {
			return fmt.Errorf("%s ChromaticNumber = %d with colouring %v, want %d", what, got, col, chi)
		}
		for _, k := range []int{chi - 1, chi, chi + 1} {
			if k < 0 {
				continue
			}
			var ok bool
			var kc []int
			if p := try(func() { ok, kc = graph.IsKColorable(gr, k) }); p != nil {
				return fmt.Errorf("%s IsKColorable(%d) panicked: %v", what, k, p)
			}
			if ok != (k >= chi) {
				return fmt.Errorf("%s IsKColorable(%d) = %v but the chromatic number is %d", what, k, ok, chi)
			}
			if ok && (!properOn(g, kc) || distinctCount(kc) > k) {
				return fmt.Errorf("%s IsKColorable(%d) colouring %v is not a proper colouring with at most %d colours", what, k, kc, k)
			}
		}
		if w := graph.CliqueNumber(gr); w != omega {
			return fmt.Errorf("%s CliqueNumber = %d want %d", what, w, omega)
		}
	}
	return nil
}

func init() {
	RegisterRapid("C09_exact_colouring_mid_size",
		"rapid: graphs on 9..11 (thorough 13) vertices - G(n,p) at densities 2/8..6/8, Mycielski graphs, random regular graphs - relabelled: ChromaticNumber (value and witness), IsKColorable(chi-1, chi, chi+1) and CliqueNumber against an O(3^n) small-integer DP; dense and sparse inputs. Non-trivial: chi > omega (the exact search has to backtrack).",
		Budget{Checks: 6000, Shards: 2}, Budget{Checks: 40000, Shards: 16}, genMidCase, checkMidCase)
}
