package props

import (
	"encoding/json"
	"os"
	"testing"
)

// Native coverage-guided fuzz target for C08 (thorough tier only): the bytes are the candidate string, the first
// byte's parity picks the decoder. The oracle is the same checkDecodeCase used by the rapid sub-properties, so a
// crasher is a C08 violation; the failing case is also written as a replay file where the driver can find it.
func FuzzDecoders(f *testing.F) {
	for _, s := range hostile {
		f.Add(false, s)
		f.Add(true, s)
	}
	f.Add(false, "DQc")
	f.Add(true, ":Fa@x^")
	f.Add(true, ":K`ADOccQXK`IaXcQMb")
	f.Add(false, "Ks@HOo?PGdCK")
	sub := registry["C08_decoders_total"]
	f.Fuzz(func(t *testing.T, sparse bool, s string) {
		c := decodeCase{Format: "graph6", S: word(s)}
		if sparse {
			c.Format = "sparse6"
		}
		if len(s) > 4096 {
			return
		}
		rec := &Rec{}
		var err error
		if p := try(func() { err = checkDecodeCase(c, rec) }); p != nil {
			t.Errorf("panic: %v", p)
		}
		if err != nil || t.Failed() {
			if path := os.Getenv("VERIF_FUZZ_FAILFILE"); path != "" {
				raw, _ := json.Marshal(c)
				msg := "native fuzzing found a failing input"
				if err != nil {
					msg = err.Error()
				}
				b, _ := json.Marshal(failure{Sub: sub.Name, Prop: "C08", Case: raw, Error: msg})
				_ = os.WriteFile(path, b, 0o644)
			}
			t.Fatalf("C08 violation on %q (%s): %v", s, c.Format, err)
		}
	})
}
