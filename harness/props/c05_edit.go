package props

import (
	"fmt"

	"github.com/Tom-Johnston/mamba/graph"
	"github.com/Tom-Johnston/mamba/sortints"
	"pgregory.net/rapid"
	"verifharness/oracle"
)

// C05: editable graphs behave as an abstract simple graph under every edit history.

type editOp struct {
	Kind string // addvertex removevertex addedge removeedge copy induced
	Slot int
	I, J int
	V    []int
}

type editCase struct {
	Init  GSpec
	Built string // how the initial graphs are produced: literal, constructors, decoders, edited
	Spare int    // spare capacity (filled with garbage) behind the initial graph's slices (literal only)
	Ops   []editOp
}

func genEditCase(t *rapid.T) editCase {
	maxN := sz(8, 16)
	g := genAnyGraph(t, min(maxN, 7))
	if rapid.IntRange(0, 3).Draw(t, "large") == 0 {
		// larger and denser graphs: neighbour lists beyond any small-size fast path (degree >= 17 needs n >= 18)
		maxN = sz(28, 44)
		n := rapid.IntRange(10, maxN-2).Draw(t, "ln")
		g = oracle.New(n)
		num := rapid.IntRange(1, 8).Draw(t, "ldens") // sparse to complete
		for j := 0; j < n; j++ {
			for i := 0; i < j; i++ {
				if rapid.IntRange(0, 7).Draw(t, "le") < num {
					g.Add(i, j)
				}
			}
		}
	}
	huge := rare(t, "huge", 14)
	if huge {
		// hundreds of vertices (row and label indices past 255, 362, 511): sparse random edges plus a few dense rows
		n := rapid.IntRange(257, sz(560, 1100)).Draw(t, "hn")
		maxN = n + 4
		g = oracle.New(n)
		for k := rapid.IntRange(n, 3*n).Draw(t, "hm"); k > 0; k-- {
			a, b := rapid.IntRange(0, n-1).Draw(t, "ha"), rapid.IntRange(0, n-1).Draw(t, "hb")
			if a != b {
				g.Add(a, b)
			}
		}
		for k := 0; k < 3; k++ {
			v := rapid.IntRange(0, n-1).Draw(t, "hub")
			for u := 0; u < n; u++ {
				if u != v && rapid.IntRange(0, 3).Draw(t, "hubedge") == 0 {
					g.Add(u, v)
				}
			}
		}
	}
	c := editCase{Init: specOf(g), Built: rapid.SampledFrom(buildWays).Draw(t, "built"), Spare: rapid.SampledFrom([]int{0, 0, 3, 40}).Draw(t, "spare")}
	sizes := []int{g.N}
	nops := rapid.IntRange(1, sz(30, 120)).Draw(t, "nops")
	if g.N > 9 {
		nops = rapid.IntRange(1, sz(14, 40)).Draw(t, "nopsl")
	}
	if huge {
		nops = rapid.IntRange(1, 8).Draw(t, "nopsh")
	}
	for k := 0; k < nops; k++ {
		slot := rapid.IntRange(0, len(sizes)-1).Draw(t, "slot")
		n := sizes[slot]
		kinds := []string{"addvertex", "addedge", "addedge", "removeedge"}
		if n >= 1 {
			kinds = append(kinds, "removevertex", "removevertex")
		}
		if len(sizes) < 6 && !(huge && len(sizes) >= 2) {
			kinds = append(kinds, "copy", "induced")
		}
		if n == 0 {
			kinds = []string{"addvertex", "copy", "induced"}
			if len(sizes) >= 6 {
				kinds = []string{"addvertex"}
			}
		}
		if n >= maxN {
			kinds = []string{"removevertex", "addedge", "removeedge", "removevertex"}
		}
		op := editOp{Kind: rapid.SampledFrom(kinds).Draw(t, "kind"), Slot: slot}
		switch op.Kind {
		case "addvertex":
			op.V = genSubsetInAnyOrder(t, n)
			sizes[slot]++
		case "removevertex":
			op.I = rapid.IntRange(0, n-1).Draw(t, "v")
			sizes[slot]--
		case "addedge", "removeedge":
			op.I = rapid.IntRange(0, n-1).Draw(t, "i")
			op.J = rapid.IntRange(0, n-1).Draw(t, "j")
		case "copy":
			sizes = append(sizes, n)
		case "induced":
			op.V = genSubsetInAnyOrder(t, n)
			sizes = append(sizes, len(op.V))
		}
		if op.V == nil {
			op.V = []int{}
		}
		c.Ops = append(c.Ops, op)
	}
	return c
}

// genSubsetInAnyOrder draws an injective list over 0..n-1 (any order, any size).
func genSubsetInAnyOrder(t *rapid.T, n int) []int {
	if n == 0 {
		return []int{}
	}
	switch rapid.IntRange(0, 7).Draw(t, "special") {
	case 0: // the identity list
		id := make([]int, n)
		for i := range id {
			id[i] = i
		}
		return id
	case 1: // everything, shuffled
		return genPerm(t, n, "order")
	case 3: // an interval or a prefix, ascending (block-copy fast paths)
		lo := rapid.IntRange(0, n-1).Draw(t, "lo")
		hi := rapid.IntRange(lo, n).Draw(t, "hi")
		r := []int{}
		for i := lo; i < hi; i++ {
			r = append(r, i)
		}
		return r
	case 2: // all but one or two, ascending
		var r []int
		skip := rapid.IntRange(0, n-1).Draw(t, "skip")
		for i := 0; i < n; i++ {
			if i != skip {
				r = append(r, i)
			}
		}
		if r == nil {
			r = []int{}
		}
		return r
	}
	p := genPerm(t, n, "order")
	k := rapid.IntRange(0, n).Draw(t, "k")
	return append([]int{}, p[:k]...)
}

type editSlot struct {
	d *graph.DenseGraph
	s *graph.SparseGraph
	m *oracle.G
}

func compareSlot(step, idx int, sl editSlot) error {
	for name, gr := range map[string]graph.Graph{"dense": sl.d, "sparse": sl.s} {
		if err := sameAs(fmt.Sprintf("after op %d, slot %d, %s", step, idx, name), gr, sl.m); err != nil {
			return err
		}
	}
	return nil
}

func checkEditCase(c editCase, rec *Rec) error {
	m0 := c.Init.Model()
	d0, s0, berr := builtBy(c.Built, m0)
	if berr != nil {
		return berr
	}
	rec.Label("built-" + c.Built)
	if c.Spare > 0 && (c.Built == "literal" || c.Built == "") {
		// spare capacity filled with garbage behind every slice of the initial graphs
		e := make([]byte, len(d0.Edges), len(d0.Edges)+c.Spare)
		copy(e, d0.Edges)
		full := e[:cap(e)]
		for i := len(e); i < len(full); i++ {
			full[i] = 1
		}
		d0.Edges = e
		dg := make([]int, len(d0.DegreeSequence), len(d0.DegreeSequence)+c.Spare)
		copy(dg, d0.DegreeSequence)
		fdg := dg[:cap(dg)]
		for i := len(dg); i < len(fdg); i++ {
			fdg[i] = 99
		}
		d0.DegreeSequence = dg
		for v := range s0.Neighbourhoods {
			nb := make([]int, len(s0.Neighbourhoods[v]), len(s0.Neighbourhoods[v])+c.Spare)
			copy(nb, s0.Neighbourhoods[v])
			fnb := nb[:cap(nb)]
			for i := len(nb); i < len(fnb); i++ {
				fnb[i] = 77
			}
			s0.Neighbourhoods[v] = sortints.SortedInts(nb)
		}
	}
	pool := []editSlot{{d0, s0, m0}}
	removedInner, editAfterDerive := false, false
	derived := map[int]bool{}
	nontrivial := false
	for step, op := range c.Ops {
		sl := pool[op.Slot]
		V := append([]int{}, op.V...)
		var p any
		switch op.Kind {
		case "addvertex":
			p = try(func() { sl.d.AddVertex(V) })
			if p == nil {
				if !eqInts(V, op.V) {
					return fmt.Errorf("op %d: DenseGraph.AddVertex modified its argument", step)
				}
				p = try(func() { sl.s.AddVertex(V) })
			}
			sl.m.AddVertex(op.V)
		case "removevertex":
			if op.I < sl.m.N-1 && sl.m.Deg(op.I) >= 1 {
				removedInner = true
			}
			p = try(func() { sl.d.RemoveVertex(op.I) })
			if p == nil {
				p = try(func() { sl.s.RemoveVertex(op.I) })
			}
			sl.m.RemoveVertex(op.I)
		case "addedge":
			p = try(func() { sl.d.AddEdge(op.I, op.J); sl.s.AddEdge(op.I, op.J) })
			sl.m.Add(op.I, op.J)
		case "removeedge":
			p = try(func() { sl.d.RemoveEdge(op.I, op.J); sl.s.RemoveEdge(op.I, op.J) })
			sl.m.Del(op.I, op.J)
		case "copy":
			var nd, ns graph.EditableGraph
			p = try(func() { nd = sl.d.Copy(); ns = sl.s.Copy() })
			if p == nil {
				dd, ok1 := nd.(*graph.DenseGraph)
				ss, ok2 := ns.(*graph.SparseGraph)
				if !ok1 || !ok2 {
					return fmt.Errorf("op %d: Copy returned %T / %T", step, nd, ns)
				}
				pool = append(pool, editSlot{dd, ss, sl.m.Copy()})
				derived[len(pool)-1] = true
				derived[op.Slot] = true
			}
		case "induced":
			var nd, ns graph.EditableGraph
			p = try(func() { nd = sl.d.InducedSubgraph(V) })
			if p == nil && !eqInts(V, op.V) {
				return fmt.Errorf("op %d: DenseGraph.InducedSubgraph modified its argument", step)
			}
			if p == nil {
				p = try(func() { ns = sl.s.InducedSubgraph(V) })
			}
			if p == nil {
				dd, ok1 := nd.(*graph.DenseGraph)
				ss, ok2 := ns.(*graph.SparseGraph)
				if !ok1 || !ok2 {
					return fmt.Errorf("op %d: InducedSubgraph returned %T / %T", step, nd, ns)
				}
				pool = append(pool, editSlot{dd, ss, sl.m.Induced(op.V)})
				derived[len(pool)-1] = true
				derived[op.Slot] = true
			}
		default:
			return fmt.Errorf("harness: bad op %q", op.Kind)
		}
		if p != nil {
			return fmt.Errorf("op %d %s(slot %d, i=%d, j=%d, V=%v) panicked: %v", step, op.Kind, op.Slot, op.I, op.J, op.V, p)
		}
		if !eqInts(V, op.V) {
			return fmt.Errorf("op %d: %s modified its argument slice", step, op.Kind)
		}
		for i := range V { // the caller refills its buffer: the graphs must not have kept a reference to it
			V[i] = 0
		}
		isEdit := op.Kind != "copy" && op.Kind != "induced"
		if isEdit && derived[op.Slot] {
			editAfterDerive = true
		}
		if isEdit && removedInner && op.Kind != "removevertex" {
			nontrivial = true
		}
		for idx, s := range pool {
			if err := compareSlot(step, idx, s); err != nil {
				return fmt.Errorf("%v [op %d was %s(slot %d, i=%d, j=%d, V=%v)]", err, step, op.Kind, op.Slot, op.I, op.J, op.V)
			}
		}
	}
	rec.NonTrivial(nontrivial || editAfterDerive)
	rec.Labelf("edit-after-copy-or-induced-%v", editAfterDerive)
	rec.Labelf("inner-vertex-removed-%v", removedInner)
	return nil
}

func init() {
	RegisterRapid("C05_edit_history",
		"rapid: initial graph from the mixed generator (n <= 7; one case in four a random graph of any density on 10..26 (thorough 42) vertices so that neighbour lists exceed 16 entries), produced by struct literal / NewDense+NewSparse / the decoders / AddVertex from the empty graph, optionally with garbage-filled spare capacity behind every slice; then 1..30 (thorough 120) ops over a pool of up to 6 graphs: AddVertex(neighbours in any order), RemoveVertex(any v), AddEdge/RemoveEdge(i,j incl. i=j, present/absent), Copy, InducedSubgraph(any injective V, with the identity list, full shuffles and all-but-one lists over-represented). Each slot holds a DenseGraph, a SparseGraph and an adjacency-matrix model; after EVERY op EVERY slot is compared (N, M, IsEdge both ways, ascending Neighbours, Degrees), so shared state between a copy/induced subgraph and its source shows up when either is edited. Non-trivial: an edit after removing a non-last vertex of degree >= 1, or an edit of a graph that has been copied / taken an induced subgraph of (or of such a result).",
		Budget{Checks: 2500, Shards: 1}, Budget{Checks: 100000, Shards: 16}, genEditCase, checkEditCase)
}
