package props

import (
	"fmt"
	"math"
	"sort"

	"github.com/Tom-Johnston/mamba/ints"
	"github.com/Tom-Johnston/mamba/sortints"
	"pgregory.net/rapid"
)

// C17: SortedInts implements finite-set algebra on its canonical representation; ints.Sort sorts.

func setOf(xs ...[]int) map[int]bool {
	m := map[int]bool{}
	for _, x := range xs {
		for _, v := range x {
			m[v] = true
		}
	}
	return m
}

func sortedKeys(m map[int]bool) []int {
	r := make([]int, 0, len(m))
	for k, ok := range m {
		if ok {
			r = append(r, k)
		}
	}
	sort.Ints(r)
	return r
}

func eqInts(a, b []int) bool {
	if len(a) != len(b) {
		return false
	}
	for i := range a {
		if a[i] != b[i] {
			return false
		}
	}
	return true
}

func strictlyIncreasing(a []int) bool {
	for i := 1; i < len(a); i++ {
		if a[i-1] >= a[i] {
			return false
		}
	}
	return true
}

// genValue draws mostly from a dense small range (to force collisions), sometimes any int.
func genValue(t *rapid.T) int {
	switch rapid.IntRange(0, 29).Draw(t, "wide") {
	case 0:
		return rapid.Int().Draw(t, "v")
	case 1:
		return rapid.SampledFrom([]int{math.MinInt, math.MinInt + 1, math.MaxInt, math.MaxInt - 1, math.MinInt32, math.MaxInt32}).Draw(t, "edge")
	}
	return rapid.IntRange(-8, 12).Draw(t, "v")
}

func genIntList(t *rapid.T, maxLen int) []int {
	n := rapid.IntRange(0, maxLen).Draw(t, "len")
	r := make([]int, n)
	for i := range r {
		r[i] = genValue(t)
	}
	return r
}

func genSet(t *rapid.T, maxLen int) []int {
	return sortedKeys(setOf(genIntList(t, maxLen)))
}

// ---- history on one receiver ----------------------------------------------------------------

type siOp struct {
	Kind string // "add", "remove", "union"
	Args []int  // add: the variadic arguments (any order, repeats); remove: Args[0]; union: a sorted set
}

type siCase struct {
	Init  []int // initial set (sorted)
	Spare int   // spare capacity of the receiver's backing array
	Ops   []siOp
}

func genSiCase(t *rapid.T) siCase {
	init := genSet(t, 8)
	// interval mode: the set is a run of consecutive integers with at most two holes, and the operations work on the
	// holes and the two ends (whatever a function concludes from min, max and length is decided here)
	lo, hi, interval := 0, 0, rapid.IntRange(0, 3).Draw(t, "interval") == 0
	if interval {
		lo = rapid.IntRange(-8, 5).Draw(t, "lo")
		hi = lo + rapid.IntRange(1, 40).Draw(t, "runlen")
		m := map[int]bool{}
		for v := lo; v <= hi; v++ {
			m[v] = true
		}
		for k := rapid.IntRange(0, 2).Draw(t, "holes"); k > 0; k-- {
			delete(m, rapid.IntRange(lo, hi).Draw(t, "hole"))
		}
		init = sortedKeys(m)
	}
	genValue := func(t *rapid.T) int {
		if interval && rapid.IntRange(0, 3).Draw(t, "inrun") != 0 {
			return rapid.IntRange(lo-1, hi+1).Draw(t, "runv")
		}
		return genValue(t)
	}
	genSet := func(t *rapid.T, maxLen int) []int {
		if !interval {
			return genSet(t, maxLen)
		}
		m := map[int]bool{}
		for k := rapid.IntRange(0, maxLen).Draw(t, "len"); k > 0; k-- {
			m[genValue(t)] = true
		}
		return sortedKeys(m)
	}
	if !interval && rapid.IntRange(0, 5).Draw(t, "longinit") == 0 {
		m := map[int]bool{}
		for i := rapid.IntRange(16, 70).Draw(t, "initlen"); i > 0; i-- {
			m[rapid.IntRange(-8, 120).Draw(t, "iv")] = true
		}
		init = sortedKeys(m)
	}
	if !interval && rapid.IntRange(0, 9).Draw(t, "hugeinit") == 0 {
		// hundreds of elements: anything that happens at a capacity or length threshold (64, 128, 256, ...) and on shrinking
		m := map[int]bool{}
		for i := rapid.IntRange(100, sz(400, 1500)).Draw(t, "hugelen"); i > 0; i-- {
			m[rapid.IntRange(-50, 3000).Draw(t, "hv")] = true
		}
		init = sortedKeys(m)
	}
	c := siCase{Init: init, Spare: rapid.SampledFrom([]int{0, 0, 1, 3, 16, 64, 200, 1000}).Draw(t, "spare")}
	n := rapid.IntRange(1, sz(12, 40)).Draw(t, "nops")
	cur := setOf(c.Init)
	drain := 0 // > 0: the next ops remove present elements one by one (a long run of Removes)
	if len(init) >= 16 && rapid.IntRange(0, 2).Draw(t, "drain") == 0 {
		drain = rapid.IntRange(len(init)/2, len(init)).Draw(t, "drainlen")
		n += drain
	}
	for i := 0; i < n; i++ {
		k := rapid.SampledFrom([]string{"add", "add", "remove", "union"}).Draw(t, "kind")
		if drain > 0 && i >= 2 {
			k = "remove"
		}
		var args []int
		switch k {
		case "add":
			m := rapid.IntRange(0, 6).Draw(t, "nargs")
			if rapid.IntRange(0, 5).Draw(t, "manyargs") == 0 {
				m = rapid.IntRange(7, 40).Draw(t, "nargsMany") // batches of 8, 16, 32+ arguments
			}
			present := sortedKeys(cur)
			for j := 0; j < m; j++ {
				switch {
				case len(args) > 0 && rapid.IntRange(0, 3).Draw(t, "rep") == 0:
					args = append(args, args[rapid.IntRange(0, len(args)-1).Draw(t, "which")]) // repeated argument
				case len(present) > 0 && rapid.IntRange(0, 2).Draw(t, "pres") == 0:
					args = append(args, present[rapid.IntRange(0, len(present)-1).Draw(t, "which")]) // already present
				default:
					args = append(args, genValue(t))
				}
			}
		case "remove":
			args = []int{genValue(t)}
			if present := sortedKeys(cur); len(present) > 0 && (drain > 0 || rapid.Bool().Draw(t, "removePresent")) {
				args = []int{present[rapid.IntRange(0, len(present)-1).Draw(t, "which")]}
				if drain > 0 {
					drain--
				}
			}
		case "union":
			args = genSet(t, 6)
			if rapid.IntRange(0, 7).Draw(t, "bigunion") == 0 {
				m := map[int]bool{}
				for j := rapid.IntRange(16, 200).Draw(t, "ulen"); j > 0; j-- {
					m[rapid.IntRange(-50, 3000).Draw(t, "uv")] = true
				}
				args = sortedKeys(m)
			}
		}
		c.Ops = append(c.Ops, siOp{Kind: k, Args: args})
		switch k {
		case "add", "union":
			for _, v := range args {
				cur[v] = true
			}
		case "remove":
			delete(cur, args[0])
		}
	}
	return c
}

func checkSiCase(c siCase, rec *Rec) error {
	backing := make([]int, len(c.Init), len(c.Init)+c.Spare)
	copy(backing, c.Init)
	s := sortints.SortedInts(backing)
	model := setOf(c.Init)
	// sets handed to Union stay the caller's: they are looked at again after every later operation on the receiver
	var keptArgs []sortints.SortedInts
	var keptCopies [][]int
	for step, op := range c.Ops {
		for k := range keptArgs {
			if !eqInts(keptArgs[k], keptCopies[k]) {
				return fmt.Errorf("step %d: the set %v that was passed to Union earlier now reads %v (a later operation on the receiver changed it)", step, keptCopies[k], []int(keptArgs[k]))
			}
		}
		args := append([]int{}, op.Args...)
		before := sortedKeys(model)
		var p any
		switch op.Kind {
		case "add":
			repeated, present := false, false
			seen := map[int]bool{}
			for _, v := range args {
				if seen[v] {
					repeated = true
				}
				seen[v] = true
				if model[v] {
					present = true
				}
			}
			rec.NonTrivial(repeated && present)
			if repeated {
				rec.Label("add-repeated-arg")
			}
			if present {
				rec.Label("add-present-arg")
			}
			p = try(func() { s.Add(args...) })
			for _, v := range args {
				model[v] = true
			}
		case "remove":
			p = try(func() { s.Remove(args[0]) })
			if model[args[0]] {
				rec.Label("remove-present")
			}
			delete(model, args[0])
		case "union":
			b := sortints.SortedInts(args)
			keptArgs = append(keptArgs, b)
			keptCopies = append(keptCopies, append([]int{}, args...))
			overlap := false
			for _, v := range args {
				if model[v] {
					overlap = true
				}
			}
			if overlap && cap(s)-len(s) > 0 {
				rec.NonTrivial(true)
				rec.Label("union-overlap-spare")
			}
			p = try(func() { s.Union(b) })
			for _, v := range args {
				model[v] = true
			}
		default:
			return fmt.Errorf("harness: bad op %q", op.Kind)
		}
		if p != nil {
			return fmt.Errorf("step %d: %v.%s(%v) panicked: %v", step, before, op.Kind, op.Args, p)
		}
		if !eqInts(args, op.Args) {
			return fmt.Errorf("step %d: %s modified its argument slice: %v -> %v", step, op.Kind, op.Args, args)
		}
		want := sortedKeys(model)
		if !strictlyIncreasing(s) || !eqInts(s, want) {
			return fmt.Errorf("step %d: %v.%s(%v) = %v, want %v", step, before, op.Kind, op.Args, []int(s), want)
		}
	}
	return nil
}

// ---- pure functions -----------------------------------------------------------------------

type sfCase struct {
	A, B []int // sorted sets
	X    int
	N    int
	Raw  []int // unsorted list with repeats for NewSortedInts
}

func genSfCase(t *rapid.T) sfCase {
	c := sfCase{A: genSet(t, 10), B: genSet(t, 10), X: genValue(t), N: rapid.IntRange(0, 14).Draw(t, "n"), Raw: genIntList(t, 10)}
	if rapid.IntRange(0, 4).Draw(t, "skewed") == 0 {
		// a long set against a short one (any size-dependent fast path), dense so that near misses are common
		long := map[int]bool{}
		for i := rapid.IntRange(16, 80).Draw(t, "longlen"); i > 0; i-- {
			long[rapid.IntRange(-10, 140).Draw(t, "lv")] = true
		}
		short := map[int]bool{}
		for i := rapid.IntRange(0, 5).Draw(t, "shortlen"); i > 0; i-- {
			short[rapid.IntRange(-10, 140).Draw(t, "sv")] = true
		}
		c.A, c.B = sortedKeys(long), sortedKeys(short)
		if rapid.Bool().Draw(t, "swap") {
			c.A, c.B = c.B, c.A
		}
		return c
	}
	if rapid.IntRange(0, 7).Draw(t, "nearinterval") == 0 {
		// a run of 3..70 consecutive integers with one or two holes, probed at a hole or an end
		lo := rapid.IntRange(-9, 5).Draw(t, "lo")
		L := rapid.IntRange(3, 70).Draw(t, "runlen")
		m := map[int]bool{}
		for v := lo; v < lo+L; v++ {
			m[v] = true
		}
		hole := rapid.IntRange(lo, lo+L-1).Draw(t, "hole")
		delete(m, hole)
		if rapid.Bool().Draw(t, "second") {
			delete(m, rapid.IntRange(lo, lo+L-1).Draw(t, "hole2"))
		}
		c.A = sortedKeys(m)
		c.X = rapid.SampledFrom([]int{hole, hole, lo - 1, lo + L, lo, lo + L - 1}).Draw(t, "probe")
		return c
	}
	if rapid.IntRange(0, 11).Draw(t, "bothlong") == 0 {
		// two sets of hundreds of elements (lengths around 256, 512, 1024 included)
		mk := func(label string) []int {
			m := map[int]bool{}
			target := rapid.SampledFrom([]int{100, 255, 256, 257, 300, 511, 512, 513, 700, 1023, 1024, 1025, 1500}).Draw(t, label+"len")
			if !Thorough {
				target = min(target, 600)
			}
			hi := rapid.SampledFrom([]int{2 * target, 4 * target, 70000}).Draw(t, label+"range")
			for len(m) < target {
				m[rapid.IntRange(-50, hi).Draw(t, label+"v")] = true
			}
			return sortedKeys(m)
		}
		c.A, c.B = mk("a"), mk("b")
		return c
	}
	if rapid.IntRange(0, 3).Draw(t, "subset") == 0 && len(c.A) > 0 {
		// make B a subset of A (ContainsSorted true branch)
		var b []int
		for _, v := range c.A {
			if rapid.Bool().Draw(t, "keep") {
				b = append(b, v)
			}
		}
		c.B = b
		if c.B == nil {
			c.B = []int{}
		}
	}
	return c
}

func checkSfCase(c sfCase, rec *Rec) error {
	// the arguments live in arrays with spare capacity (as after a Remove): a result that is "append(a, ...)" would
	// share a's array, and a second call would then overwrite the first result
	spare := func(x []int) []int {
		y := make([]int, len(x), len(x)+len(x)%3*4+(c.X&1)*8)
		copy(y, x)
		return y
	}
	c.A, c.B = spare(c.A), spare(c.B)
	a0, b0 := append([]int{}, c.A...), append([]int{}, c.B...)
	A, B := setOf(c.A), setOf(c.B)
	untouched := func(fn string) error {
		if !eqInts(c.A, a0) || !eqInts(c.B, b0) {
			return fmt.Errorf("%s modified its arguments: a %v -> %v, b %v -> %v", fn, a0, c.A, b0, c.B)
		}
		return nil
	}
	// binary set functions returning a new set
	type binf struct {
		name string
		f    func(a, b sortints.SortedInts) sortints.SortedInts
		want func(v int) bool
	}
	fs := []binf{
		{"Union", sortints.Union, func(v int) bool { return A[v] || B[v] }},
		{"Intersection", sortints.Intersection, func(v int) bool { return A[v] && B[v] }},
		{"SetMinus", sortints.SetMinus, func(v int) bool { return A[v] && !B[v] }},
		{"XOR", sortints.XOR, func(v int) bool { return A[v] != B[v] }},
	}
	universe := sortedKeys(setOf(c.A, c.B))
	inter := 0
	for _, v := range universe {
		if A[v] && B[v] {
			inter++
		}
	}
	rec.NonTrivial(inter > 0 && inter < len(universe))
	for _, f := range fs {
		var got sortints.SortedInts
		if p := try(func() { got = f.f(sortints.SortedInts(c.A), sortints.SortedInts(c.B)) }); p != nil {
			return fmt.Errorf("%s(%v,%v) panicked: %v", f.name, a0, b0, p)
		}
		want := []int{}
		for _, v := range universe {
			if f.want(v) {
				want = append(want, v)
			}
		}
		if !eqInts(got, want) {
			return fmt.Errorf("%s(%v,%v) = %v want %v", f.name, a0, b0, []int(got), want)
		}
		if err := untouched(f.name); err != nil {
			return err
		}
		// a second call with the same first argument must not disturb the first result
		keep := append([]int{}, got...)
		_ = f.f(sortints.SortedInts(c.A), sortints.SortedInts([]int{1 << 40, 1<<40 + 1}))
		_ = f.f(sortints.SortedInts(c.B), sortints.SortedInts([]int{1 << 41}))
		if !eqInts(got, keep) {
			return fmt.Errorf("%s(%v,%v): the result %v changed to %v when %s was called again with the same argument", f.name, a0, b0, keep, []int(got), f.name)
		}
		// the result is documented to be a new SortedInts: writing to it (also within its capacity) must not reach a or b
		full := got[:cap(got)]
		for i := range full {
			full[i] = -777
		}
		if err := untouched(f.name + " (after writing to its result)"); err != nil {
			return err
		}
	}
	// arguments that are slices of ONE array: a set and a prefix / suffix / the very same slice of it
	if len(c.A) >= 1 {
		s0 := sortints.SortedInts(append([]int{}, c.A...))
		k := c.N % (len(s0) + 1)
		for _, pair := range [][2]sortints.SortedInts{{s0, s0[:k]}, {s0[:k], s0}, {s0, s0[k:]}, {s0[k:], s0}, {s0, s0}} {
			x, y := pair[0], pair[1]
			mx, my := setOf(x), setOf(y)
			wantI := 0
			for v := range mx {
				if my[v] {
					wantI++
				}
			}
			if got := sortints.IntersectionSize(x, y); got != wantI {
				return fmt.Errorf("IntersectionSize(%v, %v) = %d want %d (the arguments are slices of one array)", []int(x), []int(y), got, wantI)
			}
			un := map[int]bool{}
			for v := range mx {
				un[v] = true
			}
			for v := range my {
				un[v] = true
			}
			if got := sortints.Union(x, y); !eqInts(got, sortedKeys(un)) {
				return fmt.Errorf("Union(%v, %v) = %v (the arguments are slices of one array)", []int(x), []int(y), []int(got))
			}
			if got := sortints.Intersection(x, y); len(got) != wantI {
				return fmt.Errorf("Intersection(%v, %v) = %v (the arguments are slices of one array)", []int(x), []int(y), []int(got))
			}
			if got := sortints.ContainsSorted(x, y); got != (wantI == len(my)) {
				return fmt.Errorf("ContainsSorted(%v, %v) = %v (the arguments are slices of one array)", []int(x), []int(y), got)
			}
			if !eqInts(s0, c.A) {
				return fmt.Errorf("a function modified its arguments %v (slices of one array)", c.A)
			}
		}
	}
	if got := sortints.IntersectionSize(c.A, c.B); got != inter {
		return fmt.Errorf("IntersectionSize(%v,%v) = %d want %d", a0, b0, got, inter)
	}
	subset := true
	for _, v := range c.B {
		if !A[v] {
			subset = false
		}
	}
	if got := sortints.ContainsSorted(c.A, c.B); got != subset {
		return fmt.Errorf("ContainsSorted(%v,%v) = %v want %v", a0, b0, got, subset)
	}
	// the empty set has several representations (nil, empty literal, emptied by Remove, results of other functions)
	emptied := sortints.NewSortedInts(5)
	emptied.Remove(5)
	empties := map[string]sortints.SortedInts{"nil": nil, "literal": {}, "NewSortedInts()": sortints.NewSortedInts(), "emptied": emptied,
		"Range(3,3,1)": sortints.Range(3, 3, 1), "Intersection": sortints.Intersection(sortints.SortedInts{1}, sortints.SortedInts{2})}
	for n1, e1 := range empties {
		if !sortints.ContainsSorted(c.A, e1) {
			return fmt.Errorf("ContainsSorted(%v, empty set as %s) = false", a0, n1)
		}
		if sortints.ContainsSorted(e1, c.A) != (len(c.A) == 0) {
			return fmt.Errorf("ContainsSorted(empty set as %s, %v) = %v", n1, a0, len(c.A) != 0)
		}
		for n2, e2 := range empties {
			if !sortints.ContainsSorted(e1, e2) || sortints.IntersectionSize(e1, e2) != 0 || len(sortints.Union(e1, e2)) != 0 || len(sortints.XOR(e1, e2)) != 0 {
				return fmt.Errorf("set functions on two empty sets (%s, %s) give a non-empty or false answer", n1, n2)
			}
		}
		if !eqInts(sortints.Union(c.A, e1), a0) || !eqInts(sortints.SetMinus(c.A, e1), a0) || len(sortints.Intersection(c.A, e1)) != 0 {
			return fmt.Errorf("Union/SetMinus/Intersection of %v with the empty set as %s is wrong", a0, n1)
		}
	}
	rec.Labelf("subset-%v", subset)
	for _, x := range append([]int{c.X}, universe...) {
		if got := sortints.ContainsSingle(c.A, x); got != A[x] {
			return fmt.Errorf("ContainsSingle(%v,%d) = %v want %v", a0, x, got, A[x])
		}
	}
	if err := untouched("IntersectionSize/ContainsSorted/ContainsSingle"); err != nil {
		return err
	}
	// Complement(n, a): {0..n-1} \ a ; a may hold negatives and elements >= n
	{
		var got sortints.SortedInts
		if p := try(func() { got = sortints.Complement(c.N, c.A) }); p != nil {
			return fmt.Errorf("Complement(%d,%v) panicked: %v", c.N, a0, p)
		}
		want := []int{}
		for v := 0; v < c.N; v++ {
			if !A[v] {
				want = append(want, v)
			}
		}
		if !eqInts(got, want) {
			return fmt.Errorf("Complement(%d,%v) = %v want %v", c.N, a0, []int(got), want)
		}
		outside := false
		for _, v := range c.A {
			if v < 0 || v >= c.N {
				outside = true
			}
		}
		rec.Labelf("complement-arg-outside-range-%v", outside)
		if err := untouched("Complement"); err != nil {
			return err
		}
	}
	// NewSortedInts
	{
		raw0 := append([]int{}, c.Raw...)
		var got sortints.SortedInts
		if p := try(func() { got = sortints.NewSortedInts(c.Raw...) }); p != nil {
			return fmt.Errorf("NewSortedInts(%v) panicked: %v", raw0, p)
		}
		want := sortedKeys(setOf(raw0))
		if !eqInts(got, want) {
			return fmt.Errorf("NewSortedInts(%v) = %v want %v", raw0, []int(got), want)
		}
		if !eqInts(c.Raw, raw0) {
			return fmt.Errorf("NewSortedInts modified its argument %v -> %v", raw0, c.Raw)
		}
		full := got[:cap(got)]
		for i := range full {
			full[i] = -777
		}
		if !eqInts(c.Raw, raw0) {
			return fmt.Errorf("NewSortedInts result shares memory with its argument")
		}
	}
	return nil
}

// ---- Range --------------------------------------------------------------------------------

type rangeCase struct{ Start, End, Step int }

func genRangeCase(t *rapid.T) rangeCase {
	base := 0
	if rapid.IntRange(0, 9).Draw(t, "far") == 0 {
		base = rapid.IntRange(-1<<40, 1<<40).Draw(t, "base")
	}
	return rangeCase{
		Start: base + rapid.IntRange(-20, 20).Draw(t, "start"),
		End:   base + rapid.IntRange(-20, 20).Draw(t, "end"),
		Step:  rapid.IntRange(-7, 7).Draw(t, "step"),
	}
}

func checkRangeCase(c rangeCase, rec *Rec) error {
	start, end, step := c.Start, c.End, c.Step
	mustPanic := (end < start && step > 0) || (end > start && step < 0) || (end != start && step == 0)
	var got sortints.SortedInts
	p := try(func() { got = sortints.Range(start, end, step) })
	if mustPanic {
		rec.Label("documented-panic")
		if p == nil {
			return fmt.Errorf("Range(%d,%d,%d) = %v but the set is infinite (documented panic)", start, end, step, []int(got))
		}
		return nil
	}
	if p != nil {
		return fmt.Errorf("Range(%d,%d,%d) panicked: %v", start, end, step, p)
	}
	// elements start + i*step (i >= 0) lying between start (inclusive) and end (exclusive)
	want := []int{}
	if start != end {
		for v := start; (step > 0 && v < end) || (step < 0 && v > end); v += step {
			want = append(want, v)
		}
	}
	sort.Ints(want)
	rec.NonTrivial(step < 0 && len(want) > 0)
	rec.Labelf("step-sign-%d", sign(step))
	if !eqInts(got, want) {
		return fmt.Errorf("Range(%d,%d,%d) = %v want %v", start, end, step, []int(got), want)
	}
	return nil
}

func sign(x int) int {
	switch {
	case x < 0:
		return -1
	case x > 0:
		return 1
	}
	return 0
}

// ---- ints.Sort ----------------------------------------------------------------------------

type sortCase struct{ A []int }

func genSortCase(t *rapid.T) sortCase {
	n := rapid.IntRange(0, sz(200, 3000)).Draw(t, "n")
	shape := rapid.SampledFrom([]string{"random", "fewvalues", "sorted", "reversed", "organpipe", "equal", "sawtooth", "killer", "almost", "almost"}).Draw(t, "shape")
	a := make([]int, n)
	switch shape {
	case "random":
		for i := range a {
			a[i] = rapid.Int().Draw(t, "v")
		}
	case "fewvalues":
		k := rapid.IntRange(1, 5).Draw(t, "k")
		for i := range a {
			a[i] = rapid.IntRange(0, k).Draw(t, "v")
		}
	case "sorted":
		for i := range a {
			a[i] = i / 2
		}
	case "reversed":
		for i := range a {
			a[i] = (n - i) / 3
		}
	case "organpipe":
		for i := range a {
			if i < n/2 {
				a[i] = i
			} else {
				a[i] = n - i
			}
		}
	case "equal":
		v := rapid.Int().Draw(t, "v")
		for i := range a {
			a[i] = v
		}
	case "sawtooth":
		p := rapid.IntRange(1, 17).Draw(t, "period")
		for i := range a {
			a[i] = i % p
		}
	case "almost":
		// strictly ascending or strictly descending, except for one or two elements out of place at the very ends or
		// at a drawn position (what an "already sorted / already reversed" shortcut has to get exactly right)
		if n < 3 {
			n = rapid.IntRange(3, 40).Draw(t, "an")
			a = make([]int, n)
		}
		desc := rapid.Bool().Draw(t, "descending")
		for i := range a {
			a[i] = 10 * (i + 1)
			if desc {
				a[i] = 10 * (n - i)
			}
		}
		for k := rapid.IntRange(1, 2).Draw(t, "outofplace"); k > 0; k-- {
			pos := rapid.SampledFrom([]int{0, 0, 1, n - 1, n - 1, n - 2, rapid.IntRange(0, n-1).Draw(t, "pos")}).Draw(t, "where")
			a[pos] = rapid.SampledFrom([]int{-1, 5, 10*n + 5, 10 * (n / 2), a[(pos+1)%n]}).Draw(t, "val")
		}
	case "killer":
		// median-of-three killer sequence (drives quicksort towards its depth limit -> heap sort path)
		k := n / 2
		for i := 0; i < k; i++ {
			if i%2 == 0 {
				a[i] = i + 1
			} else {
				a[i] = k + i + (i+1)%2
			}
			a[k+i] = 2 * (i + 1)
		}
	}
	return sortCase{A: a}
}

func checkSortCase(c sortCase, rec *Rec) error {
	got := append([]int{}, c.A...)
	want := append([]int{}, c.A...)
	sort.Ints(want)
	if p := try(func() { ints.Sort(got) }); p != nil {
		return fmt.Errorf("ints.Sort panicked on %d elements: %v", len(c.A), p)
	}
	rec.NonTrivial(len(c.A) > 12)
	if !eqInts(got, want) {
		return fmt.Errorf("ints.Sort result differs from sort.Ints on %v", c.A)
	}
	return nil
}

func init() {
	RegisterRapid("C17_history",
		"rapid: one receiver (with 0..16 spare capacity) under a script of Add (unsorted, repeated, already-present arguments) / Remove / Union; values dense in -8..12, 5% any int; model map[int]bool; receiver strictly increasing and equal to the model after every op, arguments unchanged. Non-trivial: an Add with a repeated argument and an already-present argument, or a Union with overlap into spare capacity.",
		Budget{Checks: 6000, Shards: 1}, Budget{Checks: 400000, Shards: 16}, genSiCase, checkSiCase)
	RegisterRapid("C17_functions",
		"rapid: sets a, b of up to 10 elements (b sometimes a subset of a; one case in five a dense set of 16..80 elements against one of 0..5), x, n, raw list; Union/Intersection/SetMinus/XOR/IntersectionSize/ContainsSorted/ContainsSingle/Complement/NewSortedInts against the model; inputs unchanged; results fresh (overwritten up to capacity, inputs re-compared). Non-trivial: a and b overlap properly.",
		Budget{Checks: 6000, Shards: 1}, Budget{Checks: 400000, Shards: 8}, genSfCase, checkSfCase)
	RegisterRapid("C17_range",
		"rapid: (start,end,step) with |values| <= 20 around 0 or around a far base, step in -7..7; oracle: {start+i*step, i>=0} from start inclusive to end exclusive, the three documented infinite-set panics being the only allowed panics. Non-trivial: negative step with a non-empty result.",
		Budget{Checks: 4000, Shards: 1}, Budget{Checks: 300000, Shards: 4}, genRangeCase, checkRangeCase)
	RegisterRapid("C17_sort",
		"rapid: slices of length 0..200 (quick) / 0..3000 (thorough) in eight shapes (random, few values, sorted, reversed, organ pipe, all equal, sawtooth, median-of-three killer, almost ascending/descending with one or two elements out of place at the ends); ints.Sort must equal sort.Ints. Non-trivial: length > 12 (beyond the insertion-sort cutoff).",
		Budget{Checks: 1500, Shards: 1}, Budget{Checks: 30000, Shards: 8}, genSortCase, checkSortCase)
}
