package props

import (
	"encoding/json"
	"fmt"
	"os"
	"sort"
	"testing"
)

func TestMain(m *testing.M) {
	code := m.Run()
	stats.flush()
	os.Exit(code)
}

// TestList prints the registry for the driver.
func TestList(t *testing.T) {
	if os.Getenv("VERIF_LIST") == "" {
		t.Skip("driver only")
	}
	names := make([]string, 0, len(registry))
	for n := range registry {
		names = append(names, n)
	}
	sort.Strings(names)
	out := []map[string]any{}
	for _, n := range names {
		s := registry[n]
		out = append(out, map[string]any{"name": s.Name, "property": s.Prop, "kind": s.Kind, "rule": s.Rule,
			"quick": s.Quick, "thorough": s.Thorough, "race": s.Race, "exhaustive": s.Exhaustive})
	}
	b, _ := json.Marshal(out)
	fmt.Printf("REGISTRY-JSON: %s\n", b)
}

// TestProp runs the sub-property named by VERIF_SUB (one per process).
func TestProp(t *testing.T) {
	name := os.Getenv("VERIF_SUB")
	if name == "" {
		t.Skip("driver only")
	}
	s, ok := registry[name]
	if !ok {
		t.Fatalf("unknown sub-property %q", name)
	}
	stats.sub = name
	s.run(t)
	if !t.Failed() {
		stats.completed = true
	}
}

// TestReplay runs one saved case through its check function, bypassing generation.
func TestReplay(t *testing.T) {
	path := os.Getenv("VERIF_REPLAY_FILE")
	if path == "" {
		t.Skip("driver only")
	}
	b, err := os.ReadFile(path)
	if err != nil {
		t.Fatalf("harness: %v", err)
	}
	var f failure
	if err := json.Unmarshal(b, &f); err != nil {
		t.Fatalf("harness: bad replay file: %v", err)
	}
	s, ok := registry[f.Sub]
	if !ok {
		t.Fatalf("harness: unknown sub-property %q in replay file", f.Sub)
	}
	stats.sub = f.Sub
	if err := s.replay(f.Case); err != nil {
		fmt.Printf("REPLAY-FAILS %s: %v\n", f.Sub, err)
		t.Fail()
		return
	}
	stats.completed = true
	fmt.Printf("REPLAY-PASSES %s\n", f.Sub)
}
