package props

import (
	"fmt"
	"sort"

	"github.com/Tom-Johnston/mamba/graph"
	"pgregory.net/rapid"
	"verifharness/oracle"
)

// C10: distance, connectivity and cycle-structure invariants equal their definitions.

// genStructured: trees, cacti, block trees, unicyclic graphs, sparse random graphs, unions with isolated vertices.
func genStructured(t *rapid.T, maxN int) *oracle.G {
	n := rapid.IntRange(0, maxN).Draw(t, "n")
	g := oracle.New(0)
	grow := func(nbrs []int) int { return g.AddVertex(nbrs) }
	switch rapid.IntRange(0, 6).Draw(t, "skind") {
	case 0: // random tree
		for v := 0; v < n; v++ {
			if v == 0 {
				grow(nil)
			} else {
				grow([]int{rapid.IntRange(0, v-1).Draw(t, "parent")})
			}
		}
	case 1: // cactus / block tree: glue cycles, cliques and edges at existing vertices
		if n > 0 {
			grow(nil)
		}
		for g.N < n {
			at := rapid.IntRange(0, g.N-1).Draw(t, "at")
			size := rapid.IntRange(1, min(5, n-g.N)).Draw(t, "bsize")
			kind := rapid.IntRange(0, 2).Draw(t, "bkind")
			first := g.N
			for i := 0; i < size; i++ {
				switch {
				case i == 0:
					grow([]int{at})
				case kind == 1: // clique block
					nb := []int{at}
					for x := first; x < g.N; x++ {
						nb = append(nb, x)
					}
					grow(nb)
				default: // path, closed into a cycle below
					grow([]int{g.N - 1})
				}
			}
			if kind == 0 && size >= 2 {
				g.Add(g.N-1, at)
			}
		}
	case 2: // unicyclic: a cycle with pendant trees
		k := rapid.IntRange(3, max(3, n)).Draw(t, "cycle")
		c := mCycle(k)
		g = c
		for g.N < n {
			grow([]int{rapid.IntRange(0, g.N-1).Draw(t, "parent")})
		}
	case 3: // sparse random graph with about c*n/2 edges
		g = oracle.New(n)
		if n >= 2 {
			m := rapid.IntRange(0, 2*n).Draw(t, "m")
			for i := 0; i < m; i++ {
				g.Add(rapid.IntRange(0, n-1).Draw(t, "u"), rapid.IntRange(0, n-1).Draw(t, "v"))
			}
		}
	case 4: // two structured pieces plus isolated vertices
		a := genStructured(t, maxN/2)
		b := genStructured(t, maxN/3)
		g = oracle.DisjointUnion(a, b)
		for k := rapid.IntRange(0, 2).Draw(t, "isolated"); k > 0 && g.N < maxN; k-- {
			grow(nil)
		}
	case 5: // long cycle with a few chords (girth far from the first vertices)
		k := max(3, n)
		g = mCycle(k)
		for c := rapid.IntRange(0, 3).Draw(t, "chords"); c > 0; c-- {
			g.Add(rapid.IntRange(0, k-1).Draw(t, "cu"), rapid.IntRange(0, k-1).Draw(t, "cv"))
		}
	default:
		g = genAnyGraph(t, maxN)
	}
	if g.N > 1 && rapid.Bool().Draw(t, "relabel") {
		g = g.Induced(genPerm(t, g.N, "relabel"))
	}
	return g
}

func transportSets(sets [][]int, inv []int) [][]int {
	out := make([][]int, len(sets))
	for i, s := range sets {
		out[i] = make([]int, len(s))
		for j, v := range s {
			out[i][j] = inv[v]
		}
	}
	return out
}

// checkStructureOn validates the C10 functions on one representation. counts=false skips the exponential counters.
func checkStructureOn(name string, g *oracle.G, gr graph.Graph, bounds []int, counts bool, largeBlocks bool) error {
	n := g.N
	fail := func(f string, args ...any) error {
		return fmt.Errorf("[%s, graph n=%d %v] %s", name, g.N, clipEdges(g), fmt.Sprintf(f, args...))
	}
	dist := oracle.Distances(g)
	var p any
	for i := 0; i < n; i++ {
		for j := 0; j < n; j++ {
			var d int
			if p = try(func() { d = graph.Distance(gr, i, j) }); p != nil {
				return fail("Distance(%d,%d) panicked: %v", i, j, p)
			}
			if d != dist[i][j] {
				return fail("Distance(%d,%d) = %d want %d", i, j, d, dist[i][j])
			}
		}
	}
	comps := oracle.Components(g)
	connected := len(comps) <= 1
	wantEcc := make([]int, n)
	for i := 0; i < n; i++ {
		for j := 0; j < n; j++ {
			if !connected {
				wantEcc[i] = -1
			} else if dist[i][j] > wantEcc[i] {
				wantEcc[i] = dist[i][j]
			}
		}
	}
	var ecc []int
	if p = try(func() { ecc = graph.Eccentricity(gr) }); p != nil {
		return fail("Eccentricity panicked: %v", p)
	}
	if !eqInts(ecc, wantEcc) {
		return fail("Eccentricity = %v want %v", ecc, wantEcc)
	}
	wantDiam, wantRad := 0, 0
	if n > 0 {
		if !connected {
			wantDiam, wantRad = -1, -1
		} else {
			wantRad = n
			for _, e := range wantEcc {
				wantDiam = max(wantDiam, e)
				wantRad = min(wantRad, e)
			}
		}
	}
	var diam, rad, girth int
	if p = try(func() { diam = graph.Diameter(gr); rad = graph.Radius(gr) }); p != nil {
		return fail("Diameter/Radius panicked: %v", p)
	}
	if diam != wantDiam || rad != wantRad {
		return fail("Diameter, Radius = %d, %d want %d, %d", diam, rad, wantDiam, wantRad)
	}
	if p = try(func() { girth = graph.Girth(gr) }); p != nil {
		return fail("Girth panicked: %v", p)
	}
	if want := oracle.Girth(g); girth != want {
		return fail("Girth = %d want %d", girth, want)
	}
	// components
	compOf := make([]int, n)
	for ci, c := range comps {
		for _, v := range c {
			compOf[v] = ci
		}
	}
	for v := 0; v < n; v++ {
		var cc []int
		if p = try(func() { cc = graph.ConnectedComponent(gr, v) }); p != nil {
			return fail("ConnectedComponent(%d) panicked: %v", v, p)
		}
		if !eqInts(cc, comps[compOf[v]]) {
			return fail("ConnectedComponent(%d) = %v want %v", v, cc, comps[compOf[v]])
		}
	}
	var ccs [][]int
	if p = try(func() { ccs = graph.ConnectedComponents(gr) }); p != nil {
		return fail("ConnectedComponents panicked: %v", p)
	}
	for _, c := range ccs {
		if !sort.IntsAreSorted(c) {
			return fail("ConnectedComponents returned the unsorted component %v", c)
		}
	}
	if fmt.Sprint(sortedSets(ccs)) != fmt.Sprint(sortedSets(comps)) {
		return fail("ConnectedComponents = %v want %v", ccs, comps)
	}
	// the lists returned belong to the caller: overwrite them and ask again
	for _, c := range ccs {
		for i := range c {
			c[i] = -1
		}
	}
	if p = try(func() { ccs = graph.ConnectedComponents(gr) }); p != nil {
		return fail("ConnectedComponents (second call) panicked: %v", p)
	}
	if fmt.Sprint(sortedSets(ccs)) != fmt.Sprint(sortedSets(comps)) {
		return fail("ConnectedComponents = %v (want %v) after the caller overwrote the result of an earlier call", ccs, comps)
	}
	// blocks and articulation vertices
	var wantBlocks [][]int
	var wantArt []int
	if largeBlocks {
		wantBlocks, wantArt = oracle.BlocksLarge(g)
	} else {
		wantBlocks, wantArt = oracle.Blocks(g)
	}
	var blocks [][]int
	var art []int
	if p = try(func() { blocks, art = graph.BiconnectedComponents(gr) }); p != nil {
		return fail("BiconnectedComponents panicked: %v", p)
	}
	for _, b := range blocks {
		if !sort.IntsAreSorted(b) {
			return fail("BiconnectedComponents returned the unsorted block %v", b)
		}
	}
	if fmt.Sprint(sortedSets(blocks)) != fmt.Sprint(sortedSets(wantBlocks)) {
		return fail("BiconnectedComponents blocks = %v want %v (each once)", blocks, wantBlocks)
	}
	if !eqInts(oracle.SortedCopy(art), wantArt) {
		return fail("BiconnectedComponents articulation vertices = %v want %v (no repeats)", art, wantArt)
	}
	for _, b := range blocks {
		for i := range b {
			b[i] = -1
		}
	}
	for i := range art {
		art[i] = -1
	}
	if p = try(func() { blocks, art = graph.BiconnectedComponents(gr) }); p != nil {
		return fail("BiconnectedComponents (second call) panicked: %v", p)
	}
	if fmt.Sprint(sortedSets(blocks)) != fmt.Sprint(sortedSets(wantBlocks)) || !eqInts(oracle.SortedCopy(art), wantArt) {
		return fail("BiconnectedComponents = %v, %v (want %v, %v) after the caller overwrote the result of an earlier call", blocks, art, wantBlocks, wantArt)
	}
	if !counts {
		return nil
	}
	// cycle / induced cycle / induced path counts
	// NumberOfCycles combines fundamental cycles, exponential in the cyclomatic number m - n + c: bound it
	if eg, ok := gr.(graph.EditableGraph); ok && g.M()-g.N+len(comps) <= 10 {
		var nc []int
		if p = try(func() { nc = graph.NumberOfCycles(eg) }); p != nil {
			return fail("NumberOfCycles panicked: %v", p)
		}
		if want := oracle.CycleCounts(g); !eqInts(nc, want) {
			return fail("NumberOfCycles = %v want %v", nc, want)
		}
		if err := sameAs(name+" after NumberOfCycles (must not modify its argument)", gr, g); err != nil {
			return err
		}
	}
	ic := oracle.InducedCycleCounts(g)
	ip := oracle.InducedPathCounts(g)
	for _, k := range bounds {
		eff := k
		if k < 0 || k > n {
			eff = n
		}
		want := make([]int, n+1)
		for l := 0; l <= n && l <= eff; l++ {
			want[l] = ic[l]
		}
		var got []int
		if p = try(func() { got = graph.NumberOfInducedCycles(gr, k) }); p != nil {
			return fail("NumberOfInducedCycles(k=%d) panicked: %v", k, p)
		}
		if !eqInts(got, want) {
			return fail("NumberOfInducedCycles(k=%d) = %v want %v", k, got, want)
		}
		effp := k
		if k < 0 || k > n-1 {
			effp = n - 1
		}
		wantp := make([]int, n)
		for l := 0; l < n && l <= effp; l++ {
			wantp[l] = ip[l]
		}
		if n > 0 {
			wantp[0] = n
		}
		if p = try(func() { got = graph.NumberOfInducedPaths(gr, k) }); p != nil {
			return fail("NumberOfInducedPaths(k=%d) panicked: %v", k, p)
		}
		if !eqInts(got, wantp) {
			return fail("NumberOfInducedPaths(k=%d) = %v want %v", k, got, wantp)
		}
	}
	return nil
}

func checkStructureSmall(c invCase, rec *Rec) error {
	g := c.G.Model()
	hasCut := false
	if _, art := oracle.Blocks(g); len(art) > 0 {
		hasCut = true
	}
	rec.NonTrivial(g.N >= 4 && (oracle.Girth(g) > 0 || hasCut))
	rec.Labelf("connected-%v", len(oracle.Components(g)) <= 1)
	names := append([]string{}, repNames...)
	sort.Strings(names)
	for _, name := range names {
		if err := checkStructureOn(name, g, repOf(g, name), c.Bounds, true, false); err != nil {
			return err
		}
	}
	h := g.Induced(c.Perm)
	if err := checkStructureOn(fmt.Sprintf("relabelled by %v, dense", c.Perm), h, denseOf(h), c.Bounds, true, false); err != nil {
		return err
	}
	return checkStructureOn(fmt.Sprintf("relabelled by %v, sparse", c.Perm), h, sparseOf(h), c.Bounds, true, false)
}

func checkStructureLarge(c invCase, rec *Rec) error {
	g := c.G.Model()
	_, art := oracle.BlocksLarge(g)
	rec.NonTrivial(g.N >= 10 && (oracle.Girth(g) > 0 || len(art) > 0))
	rec.Labelf("n-%d", bucket(g.N))
	rec.Labelf("girth-%d", oracle.Girth(g))
	for _, name := range []string{"dense", "sparse", "cocomp"} {
		if err := checkStructureOn(name, g, repOf(g, name), nil, false, true); err != nil {
			return err
		}
	}
	h := g.Induced(c.Perm)
	return checkStructureOn(fmt.Sprintf("relabelled by %v, sparse", c.Perm), h, sparseOf(h), nil, false, true)
}

func init() {
	RegisterRapid("C10_small_all_invariants",
		"rapid: graphs with n <= 8 (quick) / 9 (thorough) from trees, cacti and block trees (cycles, cliques and bridges glued at cut vertices), unicyclic graphs, sparse random graphs, disjoint unions with isolated vertices, long cycles with chords and the mixed symmetric generator; a relabelling; length bounds {-1,0,1,2,random,n,n+1}. On all five representations and on the relabelled graph (dense and sparse): Distance for all ordered pairs, Eccentricity, Diameter, Radius (documented -1/0 conventions), Girth vs the edge-deletion definition, ConnectedComponent(v) for every v, ConnectedComponents and BiconnectedComponents as sets of sorted sets vs subset-enumeration oracles (articulation vertices as a repeat-free set), NumberOfCycles vs explicit cycle enumeration (argument unmodified), NumberOfInducedCycles and NumberOfInducedPaths for every bound vs explicit enumeration with zero above the effective bound. Non-trivial: n >= 4 with a cycle or a cut vertex.",
		Budget{Checks: 1500, Shards: 1}, Budget{Checks: 4000, Shards: 8},
		func(t *rapid.T) invCase {
			g := genStructured(t, sz(8, 9))
			return invCase{G: specOf(g), Perm: genPerm(t, g.N, "pi"), Bounds: []int{-1, 0, 1, 2, rapid.IntRange(0, g.N+1).Draw(t, "bound"), g.N, g.N + 1}}
		}, checkStructureSmall)
	RegisterRapid("C10_large_distance_connectivity",
		"rapid: the same structured generators at n <= 30 (quick) / 60 (thorough): Distance (all pairs), Eccentricity, Diameter, Radius, Girth, ConnectedComponent(s) and BiconnectedComponents on dense, sparse and a view, and on the relabelled graph; block oracle = articulation-by-deletion + edge equivalence (cross-checked against the subset oracle in the oracle tests). Non-trivial: n >= 10 with a cycle or a cut vertex.",
		Budget{Checks: 600, Shards: 1}, Budget{Checks: 2000, Shards: 8},
		func(t *rapid.T) invCase {
			g := genStructured(t, sz(30, 60))
			return invCase{G: specOf(g), Perm: genPerm(t, g.N, "pi")}
		}, checkStructureLarge)
}
