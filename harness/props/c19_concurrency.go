package props

import (
	"bytes"
	"encoding/json"
	"fmt"
	"os"
	"runtime"
	"sort"
	"strings"
	"sync"

	"github.com/Tom-Johnston/mamba/comb"
	"github.com/Tom-Johnston/mamba/dawg"
	"github.com/Tom-Johnston/mamba/disjoint"
	"github.com/Tom-Johnston/mamba/graph"
	"github.com/Tom-Johnston/mamba/graph/search"
	"github.com/Tom-Johnston/mamba/ints"
	"github.com/Tom-Johnston/mamba/itertools"
	"github.com/Tom-Johnston/mamba/sortints"
	"github.com/Tom-Johnston/mamba/tsp"
	"pgregory.net/rapid"
	"verifharness/oracle"
)

// C19: independent values can be used from different goroutines without interference.
// Run from the -race binary: any report of the race detector, and any difference between a task's
// concurrent and sequential result, is a violation.

type cTask struct {
	Kind string
	A, B int
	G    GSpec // a task's own graph, where it has one
	Text word
}

type concCase struct {
	Shared     GSpec
	Words      []word
	SetA, SetB []int
	Tasks      []cTask
	Goroutines int
	Procs      int
	Rounds     int
	RefAfter   bool // compute the sequential reference results AFTER the concurrent rounds (a reference run first would warm any lazily filled cache and hide races on its first fill)
}

var concKinds = []string{"canon-own", "canon-shared", "canon-alloc", "iter", "dawg-build", "dawg-lookup", "dawg-search", "observe",
	"invariants", "codecs", "cliques-chan", "comb", "sortints", "random", "generators", "tsp", "colouring", "dawg-gob", "search-saveload", "views", "canon-big", "canon-big", "derive-edit", "compute-then-edit", "shared-arguments", "big-shared", "big-shared"}

func genConcCase(t *rapid.T) concCase {
	words := genWordSet(t, []byte{'a', 'b', 'c'}, 12, 4)
	if rapid.Bool().Draw(t, "widedawg") {
		// a shared Dawg whose root and second level have 20+ links (any per-node lazily built index is then in play)
		set := map[word]bool{}
		for _, w := range words {
			set[w] = true
		}
		for ch := byte('a'); ch <= 'x'; ch++ {
			set[word([]byte{ch})] = true
			set[word([]byte{'m', ch})] = true
			if rapid.Bool().Draw(t, "deeper") {
				set[word([]byte{ch, 'q', ch})] = true
			}
		}
		words = sortedWords(set)
	}
	c := concCase{Shared: specOf(genAnyGraph(t, 8)), Words: words,
		SetA: genSet(t, 8), SetB: genSet(t, 8),
		Goroutines: rapid.SampledFrom([]int{2, 3, 4, 8, 16}).Draw(t, "goroutines"),
		Procs:      rapid.SampledFrom([]int{1, 2, 4, 16}).Draw(t, "procs"),
		Rounds:     rapid.IntRange(1, 3).Draw(t, "rounds"),
		RefAfter:   rapid.Bool().Draw(t, "refafter")}
	if rapid.IntRange(0, 2).Draw(t, "withsearch") == 0 {
		n := rapid.IntRange(3, 6).Draw(t, "sn")
		m := rapid.IntRange(2, 4).Draw(t, "sm")
		if rare(t, "search8", 8) {
			n, m = 8, 4 // 12346 graphs: subset tables of 35, 56 and 70 entries in every shard
		}
		for a := 0; a < m; a++ {
			c.Tasks = append(c.Tasks, cTask{Kind: "search", A: a, B: m, G: GSpec{N: n}})
		}
	}
	k := rapid.IntRange(3, 12).Draw(t, "ntasks")
	for i := 0; i < k; i++ {
		tk := cTask{Kind: rapid.SampledFrom(concKinds).Draw(t, "kind"), A: rapid.IntRange(0, 11).Draw(t, "a"), B: rapid.IntRange(0, 5).Draw(t, "b")}
		switch tk.Kind {
		case "canon-big":
			// 24..44 vertices with large cells: a few big twin classes plus some irregular edges
			k := rapid.IntRange(2, 3).Draw(t, "bigparts")
			parts := make([]int, k)
			for i := range parts {
				parts[i] = rapid.IntRange(9, 15).Draw(t, "bigpart")
			}
			g := mCompleteMultipartite(parts)
			for e := rapid.IntRange(0, 4).Draw(t, "bigextra"); e > 0; e-- {
				u, v := rapid.IntRange(0, g.N-1).Draw(t, "bu"), rapid.IntRange(0, g.N-1).Draw(t, "bv")
				if u != v {
					if g.Has(u, v) {
						g.Del(u, v)
					} else {
						g.Add(u, v)
					}
				}
			}
			tk.G = specOf(g)
		case "canon-own", "canon-alloc":
			tk.G = specOf(genAnyGraph(t, 9))
		case "dawg-search":
			tk.Text = genWordOver(t, []byte{'a', 'b', 'c', '?'}, 4)
		case "dawg-build":
			tk.G = GSpec{N: rapid.IntRange(0, 8).Draw(t, "nwords")}
		}
		c.Tasks = append(c.Tasks, tk)
		// the same task a second time makes two goroutines run exactly the same code on the shared values
		if rapid.IntRange(0, 1).Draw(t, "twin") == 0 {
			c.Tasks = append(c.Tasks, tk)
		}
	}
	return c
}

type concShared struct {
	model  *oracle.G
	graphs map[string]graph.Graph
	dense  *graph.DenseGraph
	sparse *graph.SparseGraph
	dg     *dawg.Dawg
	words  []word
	a, b   sortints.SortedInts
	rack   []byte // an unsorted pattern / rack shared by all goroutines that build searchers from it
}

// bigShared is read by every goroutine that runs a "big-shared" task.
var bigShared = func() struct {
	dense  *graph.DenseGraph
	sparse *graph.SparseGraph
} {
	g := mCycle(36)
	g.Add(0, 18)
	g.Add(5, 23)
	g.Add(9, 30)
	return struct {
		dense  *graph.DenseGraph
		sparse *graph.SparseGraph
	}{denseOf(g), sparseOf(g)}
}()

// sharedArgs are argument values that every goroutine hands to the library (which must treat them as read-only).
var sharedArgs = struct {
	empty []byte
	nbr   []int
	lists []sortints.SortedInts
}{make([]byte, 0, 256), []int{0, 1, 2, 4}, []sortints.SortedInts{{1, 2}, {0}, {0}}}

func orbitSets(ds disjoint.Set) string {
	if ds == nil {
		return "[]"
	}
	cp := append(disjoint.Set(nil), ds...)
	return fmt.Sprint(cp.Sets())
}

func runConcTask(sh *concShared, tk cTask) string {
	var sb strings.Builder
	pick := func() (string, graph.Graph) {
		name := repNames[tk.A%len(repNames)]
		return name, sh.graphs[name]
	}
	switch tk.Kind {
	case "search":
		it := search.All(tk.G.N, tk.A, tk.B)
		for it.Next() {
			sb.WriteString(graphString(it.Value()))
			sb.WriteByte('\n')
		}
	case "canon-big":
		g := tk.G.Model()
		p, o, gens := graph.CanonicalIsomorphFull(sparseOf(g), nil)
		fmt.Fprint(&sb, p, orbitSets(o), len(gens))
	case "canon-own":
		g := tk.G.Model()
		p, o, gens := graph.CanonicalIsomorphFull(denseOf(g), nil)
		fmt.Fprint(&sb, p, orbitSets(o), gens)
		// what a call returns is the caller's: overwrite it (another goroutine labelling an equal graph must not notice)
		for i := range p {
			p[i] = -1
		}
		for i := range o {
			o[i] = -9
		}
		for _, gn := range gens {
			for i := range gn {
				gn[i] = -2
			}
		}
		for _, e := range []*oracle.G{oracle.New(g.N), oracle.New(5)} { // edgeless graphs of equal size in every goroutine
			p2, o2, g2 := graph.CanonicalIsomorphFull(sparseOf(e), nil)
			fmt.Fprint(&sb, p2, orbitSets(o2), len(g2))
			for i := range p2 {
				p2[i] = -3
			}
			for i := range o2 {
				o2[i] = -4
			}
			for _, gn := range g2 {
				for i := range gn {
					gn[i] = -5
				}
			}
		}
	case "canon-shared":
		_, gr := pick()
		p, o, gens := graph.CanonicalIsomorphFull(gr, nil)
		fmt.Fprint(&sb, p, orbitSets(o), gens)
	case "canon-alloc":
		own := tk.G.Model()
		capN, capM := max(1, max(own.N, sh.model.N)), max(own.M(), sh.model.M())
		st := graph.NewStorage(capN, capM)
		op := graph.NewOrderedPartition(capN, capM, nil)
		for _, g := range []*oracle.G{own, sh.model, own} {
			nb := make([][]int, g.N)
			for v := range nb {
				nb[v] = g.Nbrs(v)
			}
			op.Reset(g.N, g.M(), nil)
			p, o, gens := graph.CanonicalIsomorphAllocated(g.N, g.M(), nb, op, st, new(graph.CanonicalOptions))
			fmt.Fprint(&sb, p, orbitSets(o), gens, ";")
		}
	case "iter":
		switch tk.A % 8 {
		case 0:
			it := itertools.Combinations(7, 3)
			for it.Next() {
				fmt.Fprint(&sb, it.Value())
			}
		case 1:
			it := itertools.CombinationsColex(7, 4)
			for it.Next() {
				fmt.Fprint(&sb, it.Value())
			}
		case 2:
			it := itertools.Permutations(5)
			for it.Next() {
				fmt.Fprint(&sb, it.Value())
			}
		case 3:
			it := itertools.Partitions(5)
			for it.Next() {
				fmt.Fprint(&sb, it.Value())
			}
		case 4:
			it := itertools.IntegerPartitions(12)
			for it.Next() {
				fmt.Fprint(&sb, it.Value())
			}
		case 5:
			it := itertools.MultisetCombinations([]int{2, 0, 3, 1}, 3)
			for it.Next() {
				fmt.Fprint(&sb, it.FreqValue(), it.Value())
			}
		case 6:
			it := itertools.TopologicalSorts(5, func(i, j int) bool { return j == i+2 })
			for it.Next() {
				fmt.Fprint(&sb, it.Value())
			}
		default:
			it := itertools.RestrictedPrefixPermutations(5, func(p []int) bool { return p[len(p)-1] != len(p)-1 })
			for it.Next() {
				fmt.Fprint(&sb, it.Value())
			}
		}
	case "dawg-build":
		var b dawg.Builder
		nw := tk.G.N * 20 // up to 160 words: builds long enough to overlap with other goroutines' builds
		var ws []word
		for i := 0; i < nw; i++ {
			ws = append(ws, word(fmt.Sprintf("w%03d%s", i, strings.Repeat("x", i%3))))
			b.Add([]byte(ws[i]))
		}
		d, _ := b.Finish()
		fmt.Fprint(&sb, d.NumberOfWords(), dumpUpToIdentity(d.VerifNodes()))
		// the automaton must survive serialisation like one that was built alone
		enc, err := d.GobEncode()
		back := new(dawg.Dawg)
		if err == nil {
			err = back.GobDecode(enc)
		}
		if err != nil {
			panic(fmt.Sprintf("gob round trip of an own Dawg failed: %v", err))
		}
		if cerr := checkAutomaton(back, ws, []word{"w", "w000x", "zz"}); cerr != nil {
			panic(fmt.Sprintf("own Dawg after a gob round trip: %v", cerr))
		}
	case "dawg-lookup":
		for ch := 0; ch < 256; ch += 5 {
			i, ok := sh.dg.Lookup([]byte{byte(ch)})
			fmt.Fprint(&sb, i, ok, ",")
		}
		for _, w := range sh.words {
			i, ok := sh.dg.Lookup([]byte(w))
			fmt.Fprint(&sb, i, ok, ";")
			i, ok = sh.dg.Lookup([]byte(w + "a"))
			fmt.Fprint(&sb, i, ok, ";")
		}
		fmt.Fprint(&sb, sh.dg.NumberOfWords())
	case "dawg-search":
		var s dawg.Searcher
		if tk.A%2 == 0 {
			s = dawg.NewPatternSearcher([]byte(tk.Text), '?')
		} else {
			s = dawg.NewAnagramSearcher([]byte(tk.Text), '?')
		}
		w, ids := sh.dg.Search(s)
		fmt.Fprintf(&sb, "%q %v", w, ids)
		// searchers built from the one shared rack
		w, ids = sh.dg.Search(dawg.NewAnagramSearcher(sh.rack, '?'))
		fmt.Fprintf(&sb, "%q %v", w, ids)
		w, ids = sh.dg.Search(dawg.NewPatternSearcher(sh.rack, '?'))
		fmt.Fprintf(&sb, "%q %v %q", w, ids, sh.rack)
		w, ids = sh.dg.Search()
		fmt.Fprintf(&sb, "%q %v", w, ids)
	case "dawg-gob":
		enc, err := sh.dg.GobEncode() // read-only on the shared Dawg
		d2 := new(dawg.Dawg)
		err2 := d2.GobDecode(enc)
		w, ids := d2.Search()
		fmt.Fprintf(&sb, "%x %v %v %q %v", enc, err, err2, w, ids)
	case "search-saveload":
		// an own pruned search, saved in the middle and resumed by a loaded copy
		tri := func(g *graph.DenseGraph) bool { return graph.CliqueNumber(g) >= 3 }
		never := func(g *graph.DenseGraph) bool { return false }
		it := search.WithPruning(5, tk.A%2, 2, never, tri)
		for i := 0; i < 3+tk.B && it.Next(); i++ {
			sb.WriteString(graphString(it.Value()))
		}
		var buf bytes.Buffer
		it.Save(&buf)
		ld := search.Load(&buf, never, tri)
		for ld.Next() {
			sb.WriteString(graphString(ld.Value()))
		}
		for it.Next() {
			sb.WriteString(graphString(it.Value()))
		}
	case "views":
		// views over the shared graphs are created and read by each goroutine
		sub := make([]int, 0, sh.model.N)
		for v := tk.A % 2; v < sh.model.N; v += 2 {
			sub = append(sub, v)
		}
		for _, base := range []graph.Graph{sh.dense, sh.sparse} {
			iv := graph.InducedSubgraph(base, sub)
			cv := graph.Complement(base)
			fmt.Fprint(&sb, iv.N(), iv.M(), iv.Degrees(), cv.M(), cv.Degrees())
			for v := 0; v < iv.N(); v++ {
				fmt.Fprint(&sb, iv.Neighbours(v))
			}
			for v := 0; v < cv.N(); v++ {
				fmt.Fprint(&sb, cv.Neighbours(v))
			}
			fmt.Fprint(&sb, graph.Graph6Encode(graph.ComplementDense(iv)), graph.CliqueNumber(cv))
		}
	case "derive-edit":
		// deep copies derived from the SHARED graphs (Copy, InducedSubgraph on a prefix, on everything, on a shuffled list)
		// are this goroutine's own values: editing them must not touch what the other goroutines are reading
		n := sh.model.N
		for _, base := range []graph.EditableGraph{sh.dense, sh.sparse} {
			lists := [][]int{}
			all := make([]int, n)
			for i := range all {
				all[i] = i
			}
			lists = append(lists, all, all[:n/2], all[:max(n-1, 0)])
			for _, V := range lists {
				for _, own := range []graph.EditableGraph{base.InducedSubgraph(V), base.Copy()} {
					k := own.N()
					if k >= 2 {
						own.RemoveEdge(0, 1)
						own.AddEdge(0, k-1)
						own.RemoveVertex(k / 2)
					}
					own.AddVertex([]int{})
					if own.N() >= 2 {
						own.AddVertex([]int{0, own.N() - 1})
						own.RemoveVertex(0)
					}
					fmt.Fprint(&sb, own.N(), own.M(), own.Degrees(), ";")
				}
			}
		}
	case "big-shared":
		// ONE shared 36-vertex graph (a cycle with three chords; biconnected, cyclomatic number 4), held dense and sparse,
		// is counted, measured and observed by several goroutines at once: nobody may modify it, not even temporarily
		for _, gr := range []graph.EditableGraph{bigShared.dense, bigShared.sparse} {
			switch (tk.A + tk.B) % 4 {
			case 0:
				fmt.Fprint(&sb, graph.NumberOfCycles(gr))
			case 1:
				fmt.Fprint(&sb, gr.M(), gr.Degrees(), gr.Neighbours(tk.A%36), gr.IsEdge(0, 35), gr.IsEdge(0, 18))
			case 2:
				bl, art := graph.BiconnectedComponents(gr)
				fmt.Fprint(&sb, len(bl), art, graph.Girth(gr), graph.Diameter(gr))
			default:
				fmt.Fprint(&sb, graph.NumberOfInducedCycles(gr, 6), graph.IsPlanar(gr), graph.Graph6Encode(gr))
			}
		}
	case "shared-arguments":
		// every goroutine passes the SAME caller-owned slices (read-only for the library) to constructors and editing
		// functions of its OWN graphs and then edits those graphs
		args := sharedArgs
		for r := 0; r < 3; r++ {
			d := graph.NewDense(1, args.empty)
			d.AddVertex(args.nbr[:1])
			d.AddVertex(args.nbr[:2])
			d.RemoveEdge(0, 1)
			d0 := graph.NewDense(0, args.empty)
			d0.AddVertex(nil)
			d0.AddVertex(args.nbr[:1])
			sp := graph.NewSparse(6, nil)
			sp.AddVertex(args.nbr)
			sp.AddVertex(args.nbr[:3])
			sp.RemoveEdge(6, args.nbr[0])
			sp.RemoveVertex(1)
			sp2 := graph.NewSparse(3, args.lists)
			sp2.AddEdge(0, 2)
			sp2.RemoveVertex(0)
			fmt.Fprint(&sb, d.M(), d.Degrees(), d0.M(), sp.M(), sp.Degrees(), sp2.M(), sp2.Degrees(), ";")
		}
	case "compute-then-edit":
		// an own graph is handed to the library and edited as soon as the call returns: nothing the call started may
		// still be looking at it (a K4 component next to a larger sparse part, so that searches can stop early)
		pg, _ := plantedCase{N: 20 + tk.A%9, K: 3, Dens: 1 + tk.B%3, Seed: uint64(tk.A*131 + tk.B)}.build()
		m := oracle.DisjointUnion(mComplete(4), pg)
		for _, own := range []graph.EditableGraph{denseOf(m), sparseOf(m)} {
			for r := 0; r < 3; r++ {
				w := graph.CliqueNumber(own)
				own.RemoveEdge(0, 1)
				own.AddEdge(0, 1)
				a := graph.IndependenceNumber(own)
				own.AddVertex([]int{0})
				own.RemoveVertex(own.N() - 1)
				cc := graph.ConnectedComponents(own)
				own.RemoveEdge(2, 3)
				own.AddEdge(2, 3)
				pl := graph.IsPlanar(own)
				own.AddEdge(0, 4)
				own.RemoveEdge(0, 4)
				dg, _ := graph.Degeneracy(own)
				own.RemoveEdge(1, 2)
				own.AddEdge(1, 2)
				cl, err := drainCliques(own)
				if err != nil {
					panic(err)
				}
				own.RemoveEdge(1, 3)
				own.AddEdge(1, 3)
				fmt.Fprint(&sb, w, a, len(cc), pl, dg, len(cl), ";")
			}
		}
	case "observe":
		_, gr := pick()
		fmt.Fprint(&sb, gr.N(), gr.M(), gr.Degrees())
		for v := 0; v < gr.N(); v++ {
			fmt.Fprint(&sb, gr.Neighbours(v))
			for u := 0; u < gr.N(); u++ {
				if gr.IsEdge(u, v) {
					sb.WriteByte('1')
				} else {
					sb.WriteByte('0')
				}
			}
		}
	case "invariants":
		_, gr := pick()
		n := gr.N()
		fmt.Fprint(&sb, graph.CliqueNumber(gr), graph.IndependenceNumber(gr), graph.Eccentricity(gr), graph.Diameter(gr), graph.Radius(gr), graph.Girth(gr))
		fmt.Fprint(&sb, sortedSets(graph.ConnectedComponents(gr)))
		bl, art := graph.BiconnectedComponents(gr)
		fmt.Fprint(&sb, sortedSets(bl), oracle.SortedCopy(art))
		for i := 0; i < n; i++ {
			for j := 0; j < n; j++ {
				fmt.Fprint(&sb, graph.Distance(gr, i, j), ",")
			}
		}
		fmt.Fprint(&sb, graph.NumberOfInducedCycles(gr, -1), graph.NumberOfInducedPaths(gr, 3), graph.IsPlanar(gr))
		if sh.model.M()-sh.model.N+len(oracle.Components(sh.model)) <= 8 {
			fmt.Fprint(&sb, graph.NumberOfCycles(sh.dense), graph.NumberOfCycles(sh.sparse))
		}
	case "colouring":
		_, gr := pick()
		chi, _ := graph.ChromaticNumber(gr)
		ci, _ := graph.ChromaticIndex(gr)
		d, _ := graph.Degeneracy(gr)
		ok2, _ := graph.IsKColorable(gr, 2)
		fmt.Fprint(&sb, chi, ci, d, ok2)
		if sh.model.M() <= 10 {
			fmt.Fprint(&sb, graph.ChromaticPolynomial(sh.dense), graph.ChromaticPolynomial(sh.sparse))
		}
		order := make([]int, gr.N())
		for i := range order {
			order[i] = (i + tk.B) % max(1, gr.N())
		}
		if oracle.IsPerm(order, gr.N()) {
			mx, col := graph.GreedyColor(gr, order)
			fmt.Fprint(&sb, mx, col, graph.IsProperColouring(gr, col))
		}
	case "codecs":
		_, gr := pick()
		g6, s6, mc := graph.Graph6Encode(gr), graph.Sparse6Encode(gr), graph.MulticodeEncode(gr)
		d1, e1 := graph.Graph6Decode(g6)
		d2, e2 := graph.Sparse6Decode(s6)
		d3 := graph.MulticodeDecode(mc)
		fmt.Fprint(&sb, g6, s6, mc, e1, e2, graph.Equal(d1, gr), graph.Equal(d2, gr), graph.Equal(d3, gr))
		if sh.model.N >= 2 && oracle.IsTree(sh.model) {
			fmt.Fprint(&sb, graph.PruferEncode(gr))
		}
	case "cliques-chan":
		_, gr := pick()
		cl, err := drainCliques(gr)
		if err != nil {
			panic(err) // producer panicked, changed a delivered clique, or never closed its channel
		}
		fmt.Fprint(&sb, sortedSets(cl), err)
		// and on an own 32..40-vertex graph with many maximal cliques: the consumer keeps every slice it receives
		pg, _ := plantedCase{N: 32 + tk.A%9, K: 3 + tk.B%3, Dens: 5, Seed: uint64(tk.A*977 + tk.B)}.build()
		cl, err = drainCliques(sparseOf(pg))
		if err != nil {
			panic(err)
		}
		fmt.Fprint(&sb, len(cl), sortedSets(cl)[:min(len(cl), 5)], err)
	case "comb":
		for n := 0; n <= 40; n += 3 {
			fmt.Fprint(&sb, comb.Coeff(n, tk.A%(n+1)), ",")
		}
		fmt.Fprint(&sb, comb.Coeffs(12)[12])
		for r := tk.B * 1000; r < tk.B*1000+40; r++ {
			u := comb.Unrank(r, 4)
			fmt.Fprint(&sb, u, comb.Rank(u))
		}
		fmt.Fprint(&sb, comb.Rank(sh.a[:min(len(sh.a), 0)]))
	case "sortints":
		a, b := sh.a, sh.b // shared, read-only
		own2 := sortints.SortedInts{1000 + tk.A, 2000 + tk.B}
		fmt.Fprint(&sb, sortints.Union(a, own2), sortints.XOR(a, own2), sortints.SetMinus(a, own2), sortints.Union(b, own2))
		fmt.Fprint(&sb, sortints.Union(a, b), sortints.Intersection(a, b), sortints.SetMinus(a, b), sortints.XOR(a, b),
			sortints.IntersectionSize(a, b), sortints.ContainsSorted(a, b), sortints.Complement(10, a), sortints.Range(tk.A, tk.A+9, 2))
		own := sortints.NewSortedInts(a...)
		own.Add(tk.A, tk.B, tk.A)
		own.Remove(tk.B)
		own.Union(b)
		fmt.Fprint(&sb, own)
		cp := append([]int{}, b...)
		ints.Sort(cp)
		fmt.Fprint(&sb, cp, ints.Max(append([]int{0}, a...)))
	case "random":
		// many calls so that concurrent callers overlap: a shared random source would interleave their draws
		for r := 0; r < 40; r++ {
			fmt.Fprint(&sb, graph.RandomMaximalClique(sh.graphs["sparse"], int64(tk.B+r)), graph.Graph6Encode(graph.RandomGraph(6, 0.5, int64(tk.A+r))))
		}
		g := graph.RandomGraph(7, 0.5, int64(tk.A))
		fmt.Fprint(&sb, graph.Graph6Encode(g), graph.Graph6Encode(graph.RandomTree(6+tk.B, int64(tk.A))), graph.RandomMaximalClique(sh.graphs["dense"], int64(tk.B)))
	case "generators":
		fmt.Fprint(&sb, graph.Graph6Encode(graph.KneserGraph(5, 2)), graph.Graph6Encode(graph.BipartiteKneserGraph(4, 1)), graph.Graph6Encode(graph.RookGraph(2, 3)),
			graph.Graph6Encode(graph.HypercubeGraph(3)), graph.Graph6Encode(graph.CirculantGraph(7, 1, tk.A%6+1)), graph.Graph6Encode(graph.FlowerSnark(3)),
			graph.Graph6Encode(graph.ComplementDense(sh.graphs["sparse"])), graph.Graph6Encode(graph.LineGraphDense(sh.graphs["dense"])))
	case "tsp":
		var buf bytes.Buffer
		err := tsp.LIB(&buf, 4+tk.B, func(i, j int) int { return 10*i + j + tk.A })
		fmt.Fprint(&sb, buf.String(), err)
	default:
		panic("harness: unknown task " + tk.Kind)
	}
	return sb.String()
}

func checkConcCase(c concCase, rec *Rec) error {
	if f := os.Getenv("VERIF_STATS_FILE"); f != "" {
		// with GORACE=halt_on_error=1 the process dies at the first report: leave the case where the driver finds it
		raw, _ := json.Marshal(c)
		fl, _ := json.Marshal(failure{Sub: "C19_concurrent_workloads", Prop: "C19", Case: raw, Error: "the race detector stopped the process while this workload was running (data race)"})
		_ = os.WriteFile(f+".current", fl, 0o644)
	}
	model := c.Shared.Model()
	// shared read-only sets live in arrays with spare capacity; the shared rack is one slice used by every goroutine
	withSpare := func(x []int) sortints.SortedInts {
		y := make([]int, len(x), len(x)+12)
		copy(y, x)
		return y
	}
	sh := &concShared{model: model, graphs: reps(model), words: c.Words, a: withSpare(c.SetA), b: withSpare(c.SetB)}
	sh.rack = []byte("cab?abc")
	sh.dense = denseOf(model)
	sh.sparse = sparseOf(model)
	var err error
	if sh.dg, err = buildDawg(c.Words); err != nil {
		return err
	}
	// sequential reference results (before or after the concurrent rounds, see RefAfter)
	want := make([]string, len(c.Tasks))
	reference := func() error {
		for i, tk := range c.Tasks {
			if p := try(func() { want[i] = runConcTask(sh, tk) }); p != nil {
				return fmt.Errorf("task %d (%s) panicked when run alone: %v", i, tk.Kind, p)
			}
		}
		return nil
	}
	if !c.RefAfter {
		if err := reference(); err != nil {
			return err
		}
	}
	prev := runtime.GOMAXPROCS(c.Procs)
	defer runtime.GOMAXPROCS(prev)
	for round := 0; round < c.Rounds; round++ {
		got := make([]string, len(c.Tasks))
		panics := make([]any, len(c.Tasks))
		var wg sync.WaitGroup
		start := make(chan struct{})
		for gi := 0; gi < c.Goroutines; gi++ {
			wg.Add(1)
			go func(gi int) {
				defer wg.Done()
				<-start
				for i := gi; i < len(c.Tasks); i += c.Goroutines {
					panics[i] = try(func() { got[i] = runConcTask(sh, c.Tasks[i]) })
				}
			}(gi)
		}
		close(start)
		wg.Wait()
		if c.RefAfter && round == 0 {
			if err := reference(); err != nil {
				return err
			}
		}
		for i := range c.Tasks {
			if panics[i] != nil {
				return fmt.Errorf("task %d (%s) panicked when run concurrently with %d others: %v", i, c.Tasks[i].Kind, len(c.Tasks)-1, panics[i])
			}
			if got[i] != want[i] {
				return fmt.Errorf("task %d (%s, a=%d b=%d) gives a different result when run concurrently (round %d, %d goroutines, GOMAXPROCS %d):\nalone:      %s\nconcurrent: %s",
					i, c.Tasks[i].Kind, c.Tasks[i].A, c.Tasks[i].B, round, c.Goroutines, c.Procs, clip(want[i], 300), clip(got[i], 300))
			}
		}
	}
	// the shards of a split search still partition the classes
	shardOut := map[int][]string{}
	sn, sm := -1, 0
	for i, tk := range c.Tasks {
		if tk.Kind == "search" {
			shardOut[tk.A] = strings.Split(strings.TrimSpace(want[i]), "\n")
			sn, sm = tk.G.N, tk.B
		}
	}
	if sn >= 0 {
		total := 0
		for a := 0; a < sm; a++ {
			for _, s := range shardOut[a] {
				if s != "" {
					total++
				}
			}
		}
		if reps, _ := classesOn(sn); total != len(reps) {
			return fmt.Errorf("the %d shards of All(%d) yield %d graphs in total, there are %d classes", sm, sn, total, len(reps))
		}
	}
	kinds := map[string]int{}
	for _, tk := range c.Tasks {
		kinds[tk.Kind]++
	}
	var ks []string
	for k := range kinds {
		ks = append(ks, k)
		rec.Label("task-" + k)
	}
	sort.Strings(ks)
	rec.NonTrivial(len(c.Tasks) >= 2 && c.Goroutines >= 2)
	rec.Labelf("procs-%d", c.Procs)
	return nil
}

func init() {
	s := RegisterRapid("C19_concurrent_workloads",
		"rapid (run from the -race binary): a workload of 3..~25 tasks drawn from 25 kinds - all m shards of search.All(n<=6; one workload in twenty-four: the four shards of All(8)), CanonicalIsomorphFull on own graphs (incl. 24..44-vertex graphs with large cells) and on ONE shared read-only graph held as dense/sparse/three views, CanonicalIsomorphAllocated with own storage, eight itertools iterators, own dawg Builders, Lookup and Search (own searchers) on ONE shared Dawg (half of the time with 24 links at the root and at a second-level node), observers / clique / colouring / distance / block / counting / planarity / codec functions on the shared graph, AllMaximalCliques with own channels, comb and sortints functions on shared read-only slices, RandomGraph/RandomTree, the named generators, tsp.LIB to own buffers, GobEncode of the shared Dawg + GobDecode into an own one, an own pruned search that is saved and resumed, induced-subgraph and complement views created over the shared graphs, deep copies (Copy, InducedSubgraph on prefixes) derived from the shared graphs and then edited, own graphs edited immediately after each library call on them returns, own graphs built and grown from argument slices that all goroutines share, NumberOfCycles / blocks / observers on ONE shared 36-vertex graph; half of the tasks are duplicated so that two goroutines run identical code on the shared values. Each task's result is computed alone (before the concurrent rounds, or - in half of the cases - after the first one, so that lazily filled caches are still cold when the goroutines start), and all tasks run on 2..16 goroutines behind a start barrier with GOMAXPROCS in {1,2,4,16}, 1..3 rounds. Violation: any race-detector report (GORACE=halt_on_error), any panic, any result that differs from the sequential one, or shards that no longer partition the classes. Schedules are sampled, not enumerated. Non-trivial: >= 2 tasks on >= 2 goroutines.",
		Budget{Checks: 150, Shards: 3}, Budget{Checks: 1500, Shards: 16}, genConcCase, checkConcCase)
	s.Race = true
}
