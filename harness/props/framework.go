// Package props holds the executable properties: for every sub-property a generator of
// plain-data cases, a pure check function that runs the real mamba code against an oracle,
// and the bookkeeping that lets the driver (/verif/check) write evidence and replay files.
package props

import (
	"encoding/json"
	"fmt"
	"hash/fnv"
	"os"
	"runtime/debug"
	"runtime/metrics"
	"sort"
	"strconv"
	"strings"
	"sync"
	"sync/atomic"
	"testing"
	"time"

	"pgregory.net/rapid"
)

// Rec is filled in by a check function while it evaluates one case.
type Rec struct {
	nontrivial bool
	labels     []string
}

// NonTrivial marks the case as non-trivial by the sub-property's stated rule.
func (r *Rec) NonTrivial(b bool) {
	if b {
		r.nontrivial = true
	}
}

// Label classifies the case (generator distribution in the evidence).
func (r *Rec) Label(s string) { r.labels = append(r.labels, s) }

// Labelf is Label with formatting.
func (r *Rec) Labelf(f string, a ...any) { r.labels = append(r.labels, fmt.Sprintf(f, a...)) }

// Budget sizes one tier of one sub-property.
type Budget struct {
	Checks int // rapid cases per shard (ignored by exhaustive enumerators)
	Shards int // independent processes (different derived seeds / slices of the space)
}

// Sub is one registered sub-property.
type Sub struct {
	Name       string
	Prop       string
	Kind       string // "rapid" or "exhaustive"
	Rule       string
	Quick      Budget
	Thorough   Budget
	Race       bool // must be run from the -race binary
	Exhaustive bool // the enumerator covers its stated finite space completely
	run        func(t *testing.T)
	replay     func(raw json.RawMessage) error
}

var registry = map[string]*Sub{}

// Thorough reports the tier this process runs in.
var Thorough = os.Getenv("VERIF_TIER") == "thorough"

// Seed is VERIF_SEED (default 1); exhaustive enumerators that sample (e.g. relabellings)
// derive every choice from it, so a run is a pure function of code and seed.
var Seed = func() uint64 {
	v, err := strconv.ParseUint(os.Getenv("VERIF_SEED"), 10, 64)
	if err != nil {
		return 1
	}
	return v
}()

// Shard / NShards identify this process among the shards of the sub-property.
var Shard, NShards = func() (int, int) {
	s, _ := strconv.Atoi(os.Getenv("VERIF_SHARD"))
	n, _ := strconv.Atoi(os.Getenv("VERIF_NSHARDS"))
	if n < 1 {
		n = 1
	}
	return s, n
}()

// sz picks a size parameter by tier.
func sz(quick, thorough int) int {
	if Thorough {
		return thorough
	}
	return quick
}

type failure struct {
	Sub   string          `json:"sub"`
	Prop  string          `json:"property"`
	Case  json.RawMessage `json:"case"`
	Error string          `json:"error"`
}

type statsT struct {
	mu          sync.Mutex
	sub         string
	evaluations int
	hashes      map[uint64]struct{}
	labels      map[string]int
	samples     []json.RawMessage
	ntSamples   []json.RawMessage
	excluded    map[string]int
	lastFailure *failure
	completed   bool
	extra       map[string]any

	hashesCapped bool
}

var stats = &statsT{hashes: map[uint64]struct{}{}, labels: map[string]int{}, excluded: map[string]int{}, extra: map[string]any{}}

const maxSampleBytes = 4000

// maxHashes bounds the per-process set of distinct non-trivial case hashes; beyond it the count is a lower bound.
const maxHashes = 60000

func (s *statsT) record(sub *Sub, raw []byte, rec *Rec) {
	s.mu.Lock()
	defer s.mu.Unlock()
	s.sub = sub.Name
	s.evaluations++
	for _, l := range rec.labels {
		s.labels[l]++
	}
	if rec.nontrivial {
		h := fnv.New64a()
		h.Write(raw)
		k := h.Sum64()
		if _, ok := s.hashes[k]; !ok && len(s.hashes) >= maxHashes {
			s.hashesCapped = true
		} else if !ok {
			s.hashes[k] = struct{}{}
			if len(s.ntSamples) < 3 && len(raw) <= maxSampleBytes {
				s.ntSamples = append(s.ntSamples, append([]byte(nil), raw...))
			}
		}
	} else if len(s.samples) < 2 && len(raw) <= maxSampleBytes {
		s.samples = append(s.samples, append([]byte(nil), raw...))
	}
}

// CountExcluded records that a generator steered away from the region of an open known finding.
func CountExcluded(key string) {
	stats.mu.Lock()
	stats.excluded[key]++
	stats.mu.Unlock()
}

// SetExtra attaches a free-form measured value to the evidence of this run.
func SetExtra(key string, v any) {
	stats.mu.Lock()
	stats.extra[key] = v
	stats.mu.Unlock()
}

func (s *statsT) flush() {
	path := os.Getenv("VERIF_STATS_FILE")
	if path == "" {
		return
	}
	s.mu.Lock()
	defer s.mu.Unlock()
	hs := make([]string, 0, len(s.hashes))
	for h := range s.hashes {
		hs = append(hs, strconv.FormatUint(h, 16))
	}
	sort.Strings(hs)
	out := map[string]any{
		"sub":           s.sub,
		"evaluations":   s.evaluations,
		"hashes":        hs,
		"labels":        s.labels,
		"samples":       append(append([]json.RawMessage{}, s.ntSamples...), s.samples...),
		"excluded":      s.excluded,
		"completed":     s.completed,
		"hashes_capped": s.hashesCapped,
		"extra":         s.extra,
	}
	if s.lastFailure != nil {
		out["failure"] = s.lastFailure
	}
	b, _ := json.Marshal(out)
	_ = os.WriteFile(path, b, 0o644)
}

// evaluate runs one case through its check function, converting panics of the code under
// test (that the check did not itself expect) into errors, and records the case.
// currentSub is the sub-property whose case is being evaluated (one at a time per process).
var currentSub *Sub

// memory watchdog (sub-properties whose inputs and oracles are small, so that gigabytes of live heap can only come
// from the code under test): once the heap exceeds 6 GB the case being evaluated is recorded as a failure and the
// process ends, before the address-space limit kills it without a trace
var (
	currentRaw   atomic.Value // []byte: the case being evaluated
	memWatchOnce sync.Once
)

func startMemWatch() {
	memWatchOnce.Do(func() {
		go func() {
			sample := []metrics.Sample{{Name: "/memory/classes/heap/objects:bytes"}}
			for {
				time.Sleep(100 * time.Millisecond)
				metrics.Read(sample)
				if sample[0].Value.Kind() == metrics.KindUint64 && sample[0].Value.Uint64() > 6<<30 {
					raw, _ := currentRaw.Load().([]byte)
					hang(currentSub, raw, fmt.Sprintf("the live heap grew beyond 6 GB (%d MB) while this case was evaluated", sample[0].Value.Uint64()>>20))
				}
			}
		}()
	})
}

func evaluate[C any](s *Sub, c C, check func(C, *Rec) error) (err error) {
	currentSub = s
	rec := &Rec{}
	raw, merr := json.Marshal(c)
	if merr != nil {
		return fmt.Errorf("harness: cannot marshal case: %v", merr)
	}
	if strings.HasPrefix(s.Name, "C11_") || strings.HasPrefix(s.Name, "C10_") || strings.HasPrefix(s.Name, "C18_") {
		currentRaw.Store(raw)
		startMemWatch()
	}
	// diagnostics only (never part of a verdict): a case that is still running after a minute is written next to the
	// stats file, so that a run that ends at its deadline (INCONCLUSIVE) names the input that consumed the time
	slow := time.AfterFunc(60*time.Second, func() {
		if f := os.Getenv("VERIF_STATS_FILE"); f != "" {
			os.WriteFile(f+".slow.json", []byte(fmt.Sprintf(`{"sub":%q,"case":%s}`+"\n", s.Name, raw)), 0o644)
		}
		fmt.Printf("SLOW-CASE %s: still running after 60s: %s\n", s.Name, clipRaw(raw, 600))
	})
	// canonical labelling has no polynomial bound: a C01/C02 case that runs for ten minutes ends the process with the
	// case saved (the driver reports INCONCLUSIVE and the input), instead of occupying a core for hours
	var giveUp *time.Timer
	if strings.HasPrefix(s.Name, "C01_") || strings.HasPrefix(s.Name, "C02_") {
		giveUp = time.AfterFunc(10*time.Minute, func() {
			// not a verdict: no failure is recorded; exit code 4 = "gave up on a slow case" (INCONCLUSIVE for the driver)
			if f := os.Getenv("VERIF_STATS_FILE"); f != "" {
				os.WriteFile(f+".slow.json", []byte(fmt.Sprintf(`{"sub":%q,"case":%s}`+"\n", s.Name, raw)), 0o644)
			}
			stats.flush()
			fmt.Printf("SLOW-ABORT %s: one case has been running for 10 minutes: %s\n", s.Name, clipRaw(raw, 600))
			os.Exit(4)
		})
	}
	func() {
		defer func() {
			if r := recover(); r != nil {
				err = fmt.Errorf("panic: %v\n%s", r, trimStack(debug.Stack()))
			}
		}()
		err = check(c, rec)
	}()
	slow.Stop()
	if giveUp != nil {
		giveUp.Stop()
	}
	stats.record(s, raw, rec)
	if err != nil {
		stats.mu.Lock()
		stats.lastFailure = &failure{Sub: s.Name, Prop: s.Prop, Case: raw, Error: err.Error()}
		stats.mu.Unlock()
	}
	return err
}

func clipRaw(b []byte, n int) string {
	if len(b) > n {
		return string(b[:n]) + "..."
	}
	return string(b)
}

func trimStack(b []byte) string {
	lines := strings.Split(string(b), "\n")
	if len(lines) > 40 {
		lines = lines[:40]
	}
	return strings.Join(lines, "\n")
}

func propOf(name string) string {
	if i := strings.IndexByte(name, '_'); i > 0 {
		return name[:i]
	}
	return name
}

// RegisterRapid registers a sub-property whose cases are drawn by rapid.
func RegisterRapid[C any](name, rule string, quick, thorough Budget, gen func(t *rapid.T) C, check func(C, *Rec) error) *Sub {
	s := &Sub{Name: name, Prop: propOf(name), Kind: "rapid", Rule: rule, Quick: quick, Thorough: thorough}
	s.run = func(t *testing.T) {
		rapid.Check(t, func(rt *rapid.T) {
			c := gen(rt)
			if err := evaluate(s, c, check); err != nil {
				rt.Fatalf("%s: %v", name, err)
			}
		})
	}
	s.replay = func(raw json.RawMessage) error {
		var c C
		if err := json.Unmarshal(raw, &c); err != nil {
			return fmt.Errorf("harness: bad replay case: %v", err)
		}
		return evaluate(s, c, check)
	}
	if _, dup := registry[name]; dup {
		panic("duplicate sub " + name)
	}
	registry[name] = s
	return s
}

// RegisterEnum registers a sub-property whose cases come from a deterministic enumerator.
// enum must call yield for each case of this process's shard and stop when yield returns false.
// Set complete=true when the enumerator covers the finite space named in rule entirely.
func RegisterEnum[C any](name, rule string, complete bool, quick, thorough Budget, enum func(yield func(C) bool), check func(C, *Rec) error) *Sub {
	s := &Sub{Name: name, Prop: propOf(name), Kind: "exhaustive", Rule: rule, Quick: quick, Thorough: thorough, Exhaustive: complete}
	s.run = func(t *testing.T) {
		enum(func(c C) bool {
			if err := evaluate(s, c, check); err != nil {
				t.Errorf("%s: %v", name, err)
				return os.Getenv("VERIF_KEEP_GOING") != "" // development aid: list every failing case
			}
			return true
		})
	}
	s.replay = func(raw json.RawMessage) error {
		var c C
		if err := json.Unmarshal(raw, &c); err != nil {
			return fmt.Errorf("harness: bad replay case: %v", err)
		}
		return evaluate(s, c, check)
	}
	if _, dup := registry[name]; dup {
		panic("duplicate sub " + name)
	}
	registry[name] = s
	return s
}

// hang reports a call that did not return within its bound: the case is saved and the process
// exits at once (the runaway goroutine cannot be stopped). Exit status 3 = hang.
func hang(s *Sub, raw []byte, what string) {
	stats.mu.Lock()
	stats.lastFailure = &failure{Sub: s.Name, Prop: s.Prop, Case: raw, Error: "did not terminate: " + what}
	stats.mu.Unlock()
	stats.flush()
	fmt.Printf("HANG %s: %s\n", s.Name, what)
	os.Exit(3)
}

// withDeadline runs f and returns false if it has not returned after d.
func withDeadline(d time.Duration, f func()) (finished bool, panicked any) {
	done := make(chan any, 1)
	go func() {
		defer func() { done <- recover() }()
		f()
	}()
	select {
	case p := <-done:
		return true, p
	case <-time.After(d):
		return false, nil
	}
}

// try runs f and returns the recovered panic value, if any.
func try(f func()) (p any) {
	defer func() { p = recover() }()
	f()
	return nil
}

// ---- splitmix64: deterministic choices for enumerators (never used inside rapid properties) ----

type prng struct{ s uint64 }

func newPrng(parts ...uint64) *prng {
	p := &prng{s: 0x9e3779b97f4a7c15}
	for _, x := range parts {
		p.s ^= x + 0x9e3779b97f4a7c15 + (p.s << 6) + (p.s >> 2)
		p.next()
	}
	return p
}

func (p *prng) next() uint64 {
	p.s += 0x9e3779b97f4a7c15
	z := p.s
	z = (z ^ (z >> 30)) * 0xbf58476d1ce4e5b9
	z = (z ^ (z >> 27)) * 0x94d049bb133111eb
	return z ^ (z >> 31)
}

func (p *prng) intn(n int) int { return int(p.next() % uint64(n)) }

func (p *prng) perm(n int) []int {
	a := make([]int, n)
	for i := range a {
		a[i] = i
	}
	for i := n - 1; i > 0; i-- {
		j := p.intn(i + 1)
		a[i], a[j] = a[j], a[i]
	}
	return a
}

func jsonMarshal(v any) ([]byte, error) { return json.Marshal(v) }

// rare reports true with probability about 1/n. rapid's integer generators favour small values and range
// boundaries, so "IntRange(0, n) == 0" fires far more often than 1/(n+1); the drawn value is mixed first.
func rare(t *rapid.T, label string, n uint64) bool {
	z := rapid.Uint64().Draw(t, label) + 0x9e3779b97f4a7c15
	z = (z ^ (z >> 30)) * 0xbf58476d1ce4e5b9
	z = (z ^ (z >> 27)) * 0x94d049bb133111eb
	z ^= z >> 31
	return z%n == 0
}
