package props

import (
	"fmt"
	"math/big"
	"sort"
	"time"

	"github.com/Tom-Johnston/mamba/graph"
	"pgregory.net/rapid"
	"verifharness/oracle"
)

// C09: clique and colouring invariants are exact and come with valid witnesses.

type invCase struct {
	G      GSpec
	Perm   []int    // relabelling pi: the relabelled graph is G.Induced(Perm)
	Order  []int    // vertex order for GreedyColor
	Colour []int    // a candidate colouring for IsProperColouring (any length, any values)
	Bounds []int    // length bounds for the counting functions (C10)
	Pairs  [][2]int // vertex pairs (C10, large graphs)
}

func genInvGraph(t *rapid.T, maxN int) *oracle.G {
	switch rapid.IntRange(0, 9).Draw(t, "invkind") {
	case 0:
		return oracle.New(rapid.IntRange(0, 3).Draw(t, "tiny"))
	case 1:
		n := rapid.IntRange(3, maxN).Draw(t, "n")
		if n%2 == 0 {
			n--
		}
		return mCycle(n) // odd cycle
	case 2:
		return mWheel(rapid.IntRange(4, maxN).Draw(t, "n"))
	case 3:
		base := genGnp(t, rapid.IntRange(1, (maxN-1)/2).Draw(t, "bn"))
		return mMycielski(base)
	case 4:
		a := genGnp(t, rapid.IntRange(1, maxN/2).Draw(t, "an"))
		b := genGnp(t, rapid.IntRange(1, maxN-a.N).Draw(t, "bn"))
		return oracle.DisjointUnion(a, b)
	default:
		return genAnyGraph(t, maxN)
	}
}

func genInvCase(t *rapid.T, maxN int) invCase {
	g := genInvGraph(t, maxN)
	c := invCase{G: specOf(g), Perm: genPerm(t, g.N, "pi"), Order: genPerm(t, g.N, "order")}
	// colouring: proper-ish, improper, wrong length, negative
	switch rapid.IntRange(0, 4).Draw(t, "colkind") {
	case 0:
		c.Colour = nil
	case 1:
		c.Colour = make([]int, max(0, g.N-1))
	default:
		c.Colour = make([]int, g.N)
		for i := range c.Colour {
			c.Colour[i] = rapid.IntRange(-1, 4).Draw(t, "col")
			if c.Colour[i] < 0 && rapid.IntRange(0, 3).Draw(t, "keepneg") != 0 {
				c.Colour[i] = 0
			}
		}
	}
	c.Bounds = []int{-1, 0, 1, 2, rapid.IntRange(0, g.N+1).Draw(t, "bound"), g.N, g.N + 1}
	return c
}

func properOn(g *oracle.G, col []int) bool {
	if len(col) != g.N {
		return false
	}
	for i := 0; i < g.N; i++ {
		if col[i] < 0 {
			return false
		}
		for j := 0; j < i; j++ {
			if g.A[i][j] && col[i] == col[j] {
				return false
			}
		}
	}
	return true
}

func distinctCount(a []int) int {
	s := map[int]bool{}
	for _, v := range a {
		s[v] = true
	}
	return len(s)
}

// drainCliques runs AllMaximalCliques and collects what it sends, surviving a panic in the producer.
func drainCliques(gr graph.Graph) (cliques [][]int, err error) {
	ch := make(chan []int)
	fail := make(chan any, 1)
	var live [][]int
	go func() {
		defer func() {
			if p := recover(); p != nil {
				fail <- p
			}
		}()
		graph.AllMaximalCliques(gr, ch)
	}()
	for {
		select {
		case c, ok := <-ch:
			if !ok {
				// a consumer may keep what it received: a clique that was delivered must not change afterwards
				for i := range live {
					if !eqInts(live[i], cliques[i]) {
						return nil, fmt.Errorf("AllMaximalCliques: clique #%d was delivered as %v and reads %v after the channel was closed (the producer reused its memory)", i, cliques[i], live[i])
					}
				}
				return cliques, nil
			}
			cliques = append(cliques, append([]int{}, c...))
			live = append(live, c)
			if len(cliques) > 1<<20 {
				return nil, fmt.Errorf("AllMaximalCliques sent more than 2^20 cliques")
			}
		case p := <-fail:
			return nil, fmt.Errorf("AllMaximalCliques panicked: %v", p)
		case <-time.After(30 * time.Second):
			// the producer neither sends nor closes: a consumer ranging over the channel would block for ever
			return nil, fmt.Errorf("AllMaximalCliques: nothing was sent and the channel was not closed for 30 s after %d cliques (n=%d)", len(cliques), gr.N())
		}
	}
}

type cliqueColourValues struct {
	omega, alpha, chi, chiIndex, degeneracy int
}

// checkColouringOn validates every C09 function on one representation of g and returns the values.
func checkColouringOn(name string, g *oracle.G, gr graph.Graph, a []*big.Int, c invCase, rec *Rec) (cliqueColourValues, error) {
	var v cliqueColourValues
	n := g.N
	chi := 0
	for j, x := range a {
		if x.Sign() > 0 {
			chi = j
			break
		}
	}
	fail := func(f string, args ...any) (cliqueColourValues, error) {
		return v, fmt.Errorf("[%s, graph n=%d %v] %s", name, g.N, clipEdges(g), fmt.Sprintf(f, args...))
	}
	var p any
	// cliques
	p = try(func() { v.omega = graph.CliqueNumber(gr) })
	if p != nil {
		return fail("CliqueNumber panicked: %v", p)
	}
	mc := oracle.MaximalCliques(g)
	wantOmega := 0
	for _, cl := range mc {
		wantOmega = max(wantOmega, len(cl))
	}
	if v.omega != wantOmega {
		return fail("CliqueNumber = %d want %d", v.omega, wantOmega)
	}
	p = try(func() { v.alpha = graph.IndependenceNumber(gr) })
	if p != nil {
		return fail("IndependenceNumber panicked: %v", p)
	}
	if want := oracle.IndependenceNumber(g); v.alpha != want {
		return fail("IndependenceNumber = %d want %d", v.alpha, want)
	}
	got, err := drainCliques(gr)
	if err != nil {
		return fail("%v", err)
	}
	gs, ws := sortedSets(got), sortedSets(mc)
	if fmt.Sprint(gs) != fmt.Sprint(ws) {
		return fail("AllMaximalCliques sent %v, the maximal cliques are %v (each exactly once)", gs, ws)
	}
	// chromatic number
	var col []int
	p = try(func() { v.chi, col = graph.ChromaticNumber(gr) })
	if p != nil {
		return fail("ChromaticNumber panicked: %v", p)
	}
	if v.chi != chi {
		return fail("ChromaticNumber = %d want %d", v.chi, chi)
	}
	if !properOn(g, col) || distinctCount(col) != chi {
		return fail("ChromaticNumber colouring %v is not a proper colouring with exactly %d colours", col, chi)
	}
	for _, x := range col {
		if x >= chi {
			return fail("ChromaticNumber colouring %v uses a colour outside 0..%d", col, chi-1)
		}
	}
	for k := 0; k <= n+1; k++ {
		var ok bool
		var kc []int
		p = try(func() { ok, kc = graph.IsKColorable(gr, k) })
		if p != nil {
			return fail("IsKColorable(%d) panicked: %v", k, p)
		}
		if ok != (k >= chi) {
			return fail("IsKColorable(%d) = %v but the chromatic number is %d", k, ok, chi)
		}
		if ok {
			if !properOn(g, kc) {
				return fail("IsKColorable(%d) colouring %v is not proper", k, kc)
			}
			for _, x := range kc {
				if x >= k {
					return fail("IsKColorable(%d) colouring %v uses colour %d", k, kc, x)
				}
			}
		} else if kc != nil {
			return fail("IsKColorable(%d) = false with a non-nil colouring", k)
		}
	}
	// chromatic index
	var ec []byte
	p = try(func() { v.chiIndex, ec = graph.ChromaticIndex(gr) })
	if p != nil {
		return fail("ChromaticIndex panicked: %v", p)
	}
	maxDeg := 0
	for _, d := range g.Degs() {
		maxDeg = max(maxDeg, d)
	}
	m := g.M()
	wantIdx := -1
	if m <= 11 {
		wantIdx = oracle.ChromaticNumber(oracle.LineGraph(g))
	}
	if wantIdx >= 0 && v.chiIndex != wantIdx {
		return fail("ChromaticIndex = %d want %d", v.chiIndex, wantIdx)
	}
	if v.chiIndex < maxDeg || v.chiIndex > maxDeg+1 && m > 0 {
		return fail("ChromaticIndex = %d outside Vizing's bounds [%d,%d]", v.chiIndex, maxDeg, maxDeg+1)
	}
	if wantIdx < 0 {
		if v.chiIndex == maxDeg {
			rec.Label("chi'-optimal-by-vizing")
		} else {
			rec.Label("chi'-optimality-unverified")
		}
	}
	if len(ec) != n*(n-1)/2 {
		return fail("ChromaticIndex colouring has length %d want %d", len(ec), n*(n-1)/2)
	}
	used := map[byte]bool{}
	for j := 0; j < n; j++ {
		for i := 0; i < j; i++ {
			x := ec[j*(j-1)/2+i]
			if g.A[i][j] {
				if x < 1 || int(x) > v.chiIndex {
					return fail("ChromaticIndex colouring gives edge %d-%d colour %d, outside 1..%d", i, j, x, v.chiIndex)
				}
				used[x] = true
			} else if x != 0 {
				return fail("ChromaticIndex colouring gives non-edge %d-%d colour %d", i, j, x)
			}
		}
	}
	if len(used) != v.chiIndex {
		return fail("ChromaticIndex colouring uses %d colours, value %d", len(used), v.chiIndex)
	}
	for w := 0; w < n; w++ {
		seen := map[byte]bool{}
		for u := 0; u < n; u++ {
			if u != w && g.A[u][w] {
				hi, lo := max(u, w), min(u, w)
				x := ec[hi*(hi-1)/2+lo]
				if seen[x] {
					return fail("ChromaticIndex colouring has two edges of colour %d at vertex %d", x, w)
				}
				seen[x] = true
			}
		}
	}
	// greedy colouring: first fit in the given order, and in five further orders derived from it
	orders := [][]int{c.Order}
	for r := 1; r <= 5 && n > 0; r++ {
		o := make([]int, n)
		for i := range o {
			o[i] = c.Order[(i*r+r)%n] // rotations / strides of the drawn order (a permutation when gcd(r,n) = 1)
		}
		if oracle.IsPerm(o, n) {
			orders = append(orders, o)
		}
		rev := make([]int, n)
		for i := range rev {
			rev[i] = o[n-1-i]
		}
		if oracle.IsPerm(rev, n) {
			orders = append(orders, rev)
		}
	}
	for _, theOrder := range orders {
		c := c
		c.Order = theOrder
		order := append([]int{}, c.Order...)
		var mx int
		var gc []int
		p = try(func() { mx, gc = graph.GreedyColor(gr, order) })
		if p != nil {
			return fail("GreedyColor(%v) panicked: %v", c.Order, p)
		}
		want := make([]int, n)
		for i := range want {
			want[i] = -1
		}
		wantMax := -1
		for _, x := range c.Order {
			usedc := map[int]bool{}
			for _, u := range g.Nbrs(x) {
				if want[u] >= 0 {
					usedc[want[u]] = true
				}
			}
			cc := 0
			for usedc[cc] {
				cc++
			}
			want[x] = cc
			wantMax = max(wantMax, cc)
		}
		if !eqInts(gc, want) || mx != wantMax {
			return fail("GreedyColor(%v) = (%d,%v) want first-fit (%d,%v)", c.Order, mx, gc, wantMax, want)
		}
		if !eqInts(order, c.Order) {
			return fail("GreedyColor modified the order")
		}
	}
	// IsProperColouring
	{
		var col []int
		if c.Colour != nil {
			col = make([]int, len(c.Colour))
			copy(col, c.Colour)
		}
		var ok bool
		p = try(func() { ok = graph.IsProperColouring(gr, col) })
		if p != nil {
			return fail("IsProperColouring(%v) panicked: %v", c.Colour, p)
		}
		want := c.Colour != nil && properOn(g, c.Colour)
		if n == 0 && c.Colour == nil {
			return v, nil // nil vs empty colouring of the empty graph: not specified, not asserted
		}
		if ok != want {
			return fail("IsProperColouring(%v) = %v want %v", c.Colour, ok, want)
		}
	}
	// degeneracy with certificate
	{
		var ord []int
		p = try(func() { v.degeneracy, ord = graph.Degeneracy(gr) })
		if p != nil {
			return fail("Degeneracy panicked: %v", p)
		}
		if want := oracle.Degeneracy(g); v.degeneracy != want {
			return fail("Degeneracy = %d want %d", v.degeneracy, want)
		}
		if n > 0 || len(ord) > 0 {
			if !oracle.IsPerm(ord, n) {
				return fail("Degeneracy order %v is not a permutation", ord)
			}
			pos := invPerm(ord)
			for _, x := range ord {
				before := 0
				for _, u := range g.Nbrs(x) {
					if pos[u] < pos[x] {
						before++
					}
				}
				if before > v.degeneracy {
					return fail("Degeneracy order %v: vertex %d is preceded by %d neighbours, d = %d", ord, x, before, v.degeneracy)
				}
			}
		}
	}
	// chromatic polynomial (editable representations only; exponential in m)
	if eg, ok := gr.(graph.EditableGraph); ok && m <= 12 {
		var poly []int
		p = try(func() { poly = graph.ChromaticPolynomial(eg) })
		if p != nil {
			return fail("ChromaticPolynomial panicked: %v", p)
		}
		if len(poly) != n+1 {
			return fail("ChromaticPolynomial has %d coefficients want %d", len(poly), n+1)
		}
		for k := 0; k <= n+1; k++ {
			val := new(big.Int)
			for i := len(poly) - 1; i >= 0; i-- {
				val.Mul(val, big.NewInt(int64(k)))
				val.Add(val, big.NewInt(int64(poly[i])))
			}
			if want := oracle.ProperColourings(a, k); val.Cmp(want) != 0 {
				return fail("ChromaticPolynomial %v evaluates to %v at k=%d, there are %v proper colourings", poly, val, k, want)
			}
		}
		if err := sameAs(name+" after ChromaticPolynomial (must not modify its argument)", gr, g); err != nil {
			return v, err
		}
		rec.Label("chromatic-polynomial-checked")
	}
	return v, nil
}

func checkColouringCase(c invCase, rec *Rec) error {
	g := c.G.Model()
	a := oracle.ColourPartitions(g)
	rec.NonTrivial(g.N >= 4 && g.M() > 0 && g.M() < g.N*(g.N-1)/2)
	names := append([]string{}, repNames...)
	sort.Strings(names)
	var base cliqueColourValues
	for i, name := range names {
		v, err := checkColouringOn(name, g, repOf(g, name), a, c, rec)
		if err != nil {
			return err
		}
		if i == 0 {
			base = v
		} else if v != base {
			return fmt.Errorf("values differ between representations of n=%d %v: %+v vs %+v (%s)", g.N, clipEdges(g), base, v, name)
		}
	}
	// relabelled graph: same values (witnesses are re-validated inside)
	h := g.Induced(c.Perm)
	c2 := c
	c2.Order = make([]int, len(c.Order))
	inv := invPerm(c.Perm)
	for i, x := range c.Order {
		c2.Order[i] = inv[x]
	}
	if c.Colour != nil && len(c.Colour) == g.N {
		c2.Colour = make([]int, g.N)
		for i := range c2.Colour {
			c2.Colour[i] = c.Colour[c.Perm[i]]
		}
	}
	v, err := checkColouringOn("relabelled dense", h, denseOf(h), oracle.ColourPartitions(h), c2, rec)
	if err != nil {
		return err
	}
	if v != base {
		return fmt.Errorf("values change under the relabelling %v of n=%d %v: %+v vs %+v", c.Perm, g.N, clipEdges(g), base, v)
	}
	rec.Labelf("chi-minus-omega=%d", base.chi-base.omega)
	return nil
}

func init() {
	RegisterRapid("C09_clique_colouring",
		"rapid: graph from the mixed generator (G(n,p), regular, circulant, named symmetric families, products, disjoint copies, joins, complements, toggled edges) plus odd cycles, wheels, Mycielski graphs, disjoint unions and n <= 3; n <= 8 (quick) / 10 (thorough); a relabelling, a GreedyColor order and a candidate colouring. On each of the five representations (dense, sparse, complement-of-complement view, complement view of the dense complement, induced-subgraph view) and on the relabelled graph: CliqueNumber/IndependenceNumber/AllMaximalCliques vs subset enumeration (set of cliques, each once, channel closed), ChromaticNumber and IsKColorable(k) for all k in 0..n+1 vs the O(3^n) partition DP with witness validation, ChromaticIndex vs chi of the line graph (m <= 11; Vizing bracket beyond) with edge-colouring validation, ChromaticPolynomial (dense, sparse; m <= 12) evaluated at k = 0..n+1 vs the number of proper colourings and argument unmodified, GreedyColor vs first-fit on the model for the drawn order and up to ten orders derived from it, IsProperColouring vs the definition, Degeneracy vs max-min-degree over all subsets with the order certificate. Values must agree across representations and the relabelling. Non-trivial: n >= 4, neither empty nor complete.",
		Budget{Checks: 1500, Shards: 1}, Budget{Checks: 1200, Shards: 16},
		func(t *rapid.T) invCase { return genInvCase(t, sz(8, 10)) }, checkColouringCase)
}
