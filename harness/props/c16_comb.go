package props

import (
	"fmt"
	"math"
	"math/big"
	"time"

	"github.com/Tom-Johnston/mamba/comb"
	"github.com/Tom-Johnston/mamba/itertools"
	"pgregory.net/rapid"
)

// C16: binomials are exact or refuse; Rank/Unrank are inverse bijections in colex order.

var (
	bigMaxU64 = new(big.Int).SetUint64(math.MaxUint64)
	bigMaxInt = big.NewInt(math.MaxInt)
)

// exactBinom computes C(n,k) exactly; ok=false means "certainly larger than 2^64" (not computed).
func exactBinom(n, k uint64) (v *big.Int, ok bool) {
	if k > n {
		return big.NewInt(0), true
	}
	if k > n-k {
		k = n - k
	}
	if k >= 35 {
		// C(n,k) >= C(2k,k) >= C(70,35) > 2^64
		return nil, false
	}
	v = big.NewInt(1)
	nn := new(big.Int).SetUint64(n - k)
	for i := uint64(1); i <= k; i++ {
		f := new(big.Int).Add(nn, new(big.Int).SetUint64(i))
		v.Mul(v, f)
		v.Div(v, new(big.Int).SetUint64(i)) // exact: v is C(n-k+i, i) after this step
	}
	return v, true
}

type coeffCase struct{ N, K uint64 }

// checkCoeffU64 is the verdict for one (n,k).
func checkCoeffU64(c coeffCase, rec *Rec) error {
	n, k := c.N, c.K
	var got uint64
	p := try(func() { got = comb.CoeffUint64(n, k) })
	exact, ok := exactBinom(n, k)
	kk := k
	if k <= n && n-k < k {
		kk = n - k
	}
	// mustReturn: C(n,k) * min(k, n-k) still fits a uint64
	mustReturn := false
	if ok {
		prod := new(big.Int).Mul(exact, new(big.Int).SetUint64(kk))
		mustReturn = prod.Cmp(bigMaxU64) <= 0
	}
	rec.NonTrivial(n > 32 && k <= n)
	rec.Labelf("mustReturn-%v", mustReturn)
	if p != nil {
		rec.Label("panicked")
		if mustReturn {
			return fmt.Errorf("CoeffUint64(%d,%d) panicked (%v) although C(n,k)*min(k,n-k) fits a uint64 (C = %v)", n, k, p, exact)
		}
		return nil
	}
	if !ok || !exact.IsUint64() || exact.Uint64() != got {
		return fmt.Errorf("CoeffUint64(%d,%d) = %d but the exact value is %v (it must be exact or panic)", n, k, got, exactString(exact, ok))
	}
	return nil
}

func exactString(v *big.Int, ok bool) string {
	if !ok {
		return "> 2^64"
	}
	return v.String()
}

// threshold returns max{n : C(n,k)*k <= 2^64-1} for k >= 2 (computed by the oracle, not read from the code).
func threshold(k uint64) uint64 {
	fits := func(n uint64) bool {
		v, ok := exactBinom(n, k)
		if !ok {
			return false
		}
		if n < 2*k { // mirrored region is not the k we are probing
			return true
		}
		return new(big.Int).Mul(v, new(big.Int).SetUint64(k)).Cmp(bigMaxU64) <= 0
	}
	lo, hi := 2*k, uint64(1)<<33 // fits(lo) is true for k <= 31ish, hi certainly not for k >= 2
	if !fits(lo) {
		return lo
	}
	for lo+1 < hi {
		mid := lo + (hi-lo)/2
		if fits(mid) {
			lo = mid
		} else {
			hi = mid
		}
	}
	return lo
}

func enumCoeffTable(yield func(coeffCase) bool) {
	// every row of the built-in table and a few rows beyond it, all k (also k > n)
	for n := uint64(0); n <= 40; n++ {
		for k := uint64(0); k <= n+2; k++ {
			if !yield(coeffCase{n, k}) {
				return
			}
		}
	}
	// both sides of every overflow threshold, direct and mirrored
	for k := uint64(2); k <= 40; k++ {
		th := threshold(k)
		for d := -6; d <= 6; d++ {
			n := uint64(int64(th) + int64(d))
			if n < k {
				continue
			}
			if !yield(coeffCase{n, k}) || !yield(coeffCase{n, n - k}) {
				return
			}
		}
	}
	// k = 1 and k = 2 at the top of the range
	for _, n := range []uint64{math.MaxUint64, math.MaxUint64 - 1, 1 << 63, 1<<63 - 1, 1 << 32, 1<<32 + 1, 1<<32 - 1, 6074001000, 6074001001} {
		for _, k := range []uint64{0, 1, 2, 3, n, n - 1, n - 2} {
			if !yield(coeffCase{n, k}) {
				return
			}
		}
	}
}

func genCoeffCase(t *rapid.T) coeffCase {
	switch rapid.IntRange(0, 3).Draw(t, "mode") {
	case 0: // small k, n up to the whole range
		k := rapid.Uint64Range(0, 40).Draw(t, "k")
		bits := rapid.IntRange(1, 64).Draw(t, "bits")
		n := rapid.Uint64().Draw(t, "n")
		if bits < 64 {
			n &= (1 << uint(bits)) - 1
		}
		if rapid.Bool().Draw(t, "mirror") && n >= k {
			k = n - k
		}
		return coeffCase{n, k}
	case 1: // around a threshold
		k := rapid.Uint64Range(2, 36).Draw(t, "k")
		th := threshold(k)
		d := rapid.IntRange(-40, 40).Draw(t, "d")
		n := uint64(int64(th) + int64(d))
		if n < k {
			n = k
		}
		if rapid.Bool().Draw(t, "mirror") {
			return coeffCase{n, n - k}
		}
		return coeffCase{n, k}
	case 2: // middle of small rows
		n := rapid.Uint64Range(0, 140).Draw(t, "n")
		return coeffCase{n, rapid.Uint64Range(0, n+1).Draw(t, "k")}
	default:
		return coeffCase{rapid.Uint64().Draw(t, "n"), rapid.Uint64().Draw(t, "k")}
	}
}

// ---- Coeff (int) and Coeffs ---------------------------------------------------------------

type coeffIntCase struct{ N, K int }

func genCoeffIntCase(t *rapid.T) coeffIntCase {
	switch rapid.IntRange(0, 2).Draw(t, "mode") {
	case 0:
		n := rapid.IntRange(-3, 80).Draw(t, "n")
		return coeffIntCase{n, rapid.IntRange(-3, 83).Draw(t, "k")}
	case 1:
		k := rapid.IntRange(1, 34).Draw(t, "k")
		// around the MaxInt threshold of the value itself
		lo, hi := uint64(2*k), uint64(1)<<62
		for lo+1 < hi {
			mid := lo + (hi-lo)/2
			v, ok := exactBinom(mid, uint64(k))
			if ok && v.Cmp(bigMaxInt) <= 0 {
				lo = mid
			} else {
				hi = mid
			}
		}
		n := int(lo) + rapid.IntRange(-5, 5).Draw(t, "d")
		if rapid.Bool().Draw(t, "mirror") && n >= k {
			return coeffIntCase{n, n - k}
		}
		return coeffIntCase{n, k}
	default:
		return coeffIntCase{rapid.IntRange(0, math.MaxInt).Draw(t, "n"), rapid.IntRange(0, 6).Draw(t, "k")}
	}
}

func checkCoeffInt(c coeffIntCase, rec *Rec) error {
	var got int
	p := try(func() { got = comb.Coeff(c.N, c.K) })
	if c.N < 0 {
		rec.Label("documented-panic-n<0")
		if p == nil {
			return fmt.Errorf("Coeff(%d,%d) = %d; documented to panic for n < 0", c.N, c.K, got)
		}
		return nil
	}
	if c.K < 0 {
		if p != nil || got != 0 {
			return fmt.Errorf("Coeff(%d,%d): want 0 for k < 0, got %d panic=%v", c.N, c.K, got, p)
		}
		return nil
	}
	exact, ok := exactBinom(uint64(c.N), uint64(c.K))
	kk := c.K
	if c.K <= c.N && c.N-c.K < kk {
		kk = c.N - c.K
	}
	mustReturn := ok && exact.Cmp(bigMaxInt) <= 0 && new(big.Int).Mul(exact, big.NewInt(int64(kk))).Cmp(bigMaxU64) <= 0
	rec.NonTrivial(c.N > 32 && c.K <= c.N)
	rec.Labelf("mustReturn-%v", mustReturn)
	if p != nil {
		if mustReturn {
			return fmt.Errorf("Coeff(%d,%d) panicked (%v) although the value %v and the step product fit", c.N, c.K, p, exact)
		}
		return nil
	}
	if !ok || !exact.IsInt64() || exact.Int64() != int64(got) {
		return fmt.Errorf("Coeff(%d,%d) = %d but the exact value is %s", c.N, c.K, got, exactString(exact, ok))
	}
	return nil
}

type coeffsCase struct{ N int }

func checkCoeffs(c coeffsCase, rec *Rec) error {
	rows := comb.Coeffs(c.N)
	if len(rows) != c.N+1 {
		return fmt.Errorf("Coeffs(%d) has %d rows", c.N, len(rows))
	}
	for m, row := range rows {
		if len(row) != m/2+1 {
			return fmt.Errorf("Coeffs(%d)[%d] has length %d want %d", c.N, m, len(row), m/2+1)
		}
		for k, v := range row {
			want := new(big.Int).Binomial(int64(m), int64(k))
			if !want.IsInt64() || want.Int64() != int64(v) {
				return fmt.Errorf("Coeffs(%d)[%d][%d] = %d want %v", c.N, m, k, v, want)
			}
		}
	}
	// the table belongs to the caller: overwriting it must not change what a later call returns
	for _, row := range rows {
		for k := range row {
			row[k] = -7
		}
	}
	again := comb.Coeffs(c.N)
	for m, row := range again {
		for k, v := range row {
			want := new(big.Int).Binomial(int64(m), int64(k))
			if !want.IsInt64() || want.Int64() != int64(v) {
				return fmt.Errorf("Coeffs(%d)[%d][%d] = %d (want %v) after the caller overwrote the table returned by an earlier call", c.N, m, k, v, want)
			}
		}
	}
	rec.NonTrivial(c.N >= 2)
	return nil
}

// ---- Rank / Unrank ------------------------------------------------------------------------

// bigRank is the colex rank by definition: sum over positions of C(c_i, i+1).
func bigRank(c []int) *big.Int {
	r := big.NewInt(0)
	for i, v := range c {
		r.Add(r, new(big.Int).Binomial(int64(v), int64(i+1)))
	}
	return r
}

// bigUnrank inverts bigRank for k-subsets: greedy from the top position.
func bigUnrank(rank *big.Int, k int) []int {
	r := new(big.Int).Set(rank)
	out := make([]int, k)
	for i := k; i >= 1; i-- {
		// largest c with C(c,i) <= r ; c >= i-1 (C(i-1,i) = 0)
		lo, hi := int64(i-1), int64(i)
		for new(big.Int).Binomial(hi, int64(i)).Cmp(r) <= 0 {
			lo = hi
			if hi > math.MaxInt64/2 { // do not overflow the doubling (only reachable for i = 1 and r near MaxInt)
				hi = math.MaxInt64
				if new(big.Int).Binomial(hi, int64(i)).Cmp(r) <= 0 {
					lo = hi
				}
				break
			}
			hi *= 2
		}
		for hi-lo > 1 {
			mid := lo + (hi-lo)/2
			if new(big.Int).Binomial(mid, int64(i)).Cmp(r) <= 0 {
				lo = mid
			} else {
				hi = mid
			}
		}
		out[i-1] = int(lo)
		r.Sub(r, new(big.Int).Binomial(lo, int64(i)))
	}
	return out
}

type unrankCase struct {
	Rank int
	K    int
}

func genUnrankCase(t *rapid.T) unrankCase {
	if rare(t, "k2boundary", uint64(sz(400, 600))) {
		// k = 2 next to a triangular number C(l,2) with l of 27..28 bits: ranks above 2^53 (the walk takes l steps, ~0.2 s)
		l := rapid.IntRange(1<<27, 1<<28).Draw(t, "l")
		return unrankCase{l*(l-1)/2 + rapid.IntRange(-2, 2).Draw(t, "delta"), 2}
	}
	k := rapid.IntRange(0, 12).Draw(t, "k")
	if rapid.IntRange(0, 5).Draw(t, "largek") == 0 {
		k = rapid.IntRange(13, 300).Draw(t, "klarge") // many small elements: another regime of every internal quantity
	}
	if k == 0 {
		return unrankCase{0, 0}
	}
	var r int
	switch k {
	case 1:
		r = rapid.IntRange(0, sz(200000, 3000000)).Draw(t, "r")
	case 2:
		m := sz(200000, 3000000)
		r = rapid.IntRange(0, m*(m-1)/2).Draw(t, "r")
	default:
		bits := rapid.IntRange(1, 63).Draw(t, "bits")
		r = rapid.IntRange(0, math.MaxInt).Draw(t, "r")
		if bits < 63 {
			r &= (1 << uint(bits)) - 1
		}
		if rapid.IntRange(0, 9).Draw(t, "top") == 0 {
			r = math.MaxInt - rapid.IntRange(0, 1000).Draw(t, "below")
		}
	}
	return unrankCase{r, k}
}

var subUnrank *Sub

func checkUnrank(c unrankCase, rec *Rec) error {
	want := bigUnrank(big.NewInt(int64(c.Rank)), c.K)
	// Unrank walks upward one element at a time: cost is bounded by the largest element of the answer.
	steps := 1
	if c.K > 0 {
		steps = want[c.K-1] + c.K
	}
	bound := 20*time.Second + time.Duration(steps)*time.Microsecond
	var got []int
	finished, p := withDeadline(bound, func() { got = comb.Unrank(c.Rank, c.K) })
	if !finished {
		raw := []byte(fmt.Sprintf(`{"Rank":%d,"K":%d}`, c.Rank, c.K))
		hang(subUnrank, raw, fmt.Sprintf("Unrank(%d,%d) still running after %v (the answer %v needs about %d steps)", c.Rank, c.K, bound, want, steps))
	}
	if p != nil {
		return fmt.Errorf("Unrank(%d,%d) panicked: %v", c.Rank, c.K, p)
	}
	rec.NonTrivial(c.Rank >= 1<<32)
	rec.Labelf("k=%d", c.K)
	if !eqInts(got, want) {
		return fmt.Errorf("Unrank(%d,%d) = %v want %v", c.Rank, c.K, got, want)
	}
	if c.K <= 12 && c.Rank < 1<<40 {
		// the result belongs to the caller: overwrite it and ask again
		for i := range got {
			got[i] = -1
		}
		if again := comb.Unrank(c.Rank, c.K); !eqInts(again, want) {
			return fmt.Errorf("Unrank(%d,%d) = %v (want %v) after the caller overwrote the result of an earlier identical call", c.Rank, c.K, again, want)
		}
		got = append([]int{}, want...)
	}
	// Rank inverts it whenever every binomial it needs is in the range Coeff promises to return
	rankable := true
	for i, v := range want {
		kk := i + 1
		if v-kk < kk {
			kk = v - kk
		}
		if kk < 0 {
			kk = 0
		}
		b := new(big.Int).Binomial(int64(v), int64(i+1))
		if new(big.Int).Mul(b, big.NewInt(int64(kk))).Cmp(bigMaxU64) > 0 {
			rankable = false
		}
	}
	var back int
	p = try(func() { back = comb.Rank(got) })
	if p != nil {
		if rankable {
			return fmt.Errorf("Rank(%v) panicked (%v) but the rank %d fits an int and every term is in Coeff's guaranteed range", got, p, c.Rank)
		}
		rec.Label("rank-refused-outside-guarantee")
		return nil
	}
	if back != c.Rank {
		return fmt.Errorf("Rank(Unrank(%d,%d)) = %d", c.Rank, c.K, back)
	}
	return nil
}

type rankCase struct{ C []int }

func genRankCase(t *rapid.T) rankCase {
	if rapid.IntRange(0, 3).Draw(t, "boundary") == 0 {
		// both sides of the point where the rank stops fitting an int: the k-subset of rank MaxInt + delta
		k := rapid.IntRange(1, 9).Draw(t, "bk")
		delta := rapid.IntRange(-3000, 3000).Draw(t, "delta")
		if rapid.Bool().Draw(t, "tight") {
			delta = rapid.IntRange(-3, 3).Draw(t, "tightdelta")
		}
		if k == 1 && delta > 0 {
			delta = -delta // a 1-subset is its own rank: nothing above MaxInt is representable
		}
		r := new(big.Int).Add(bigMaxInt, big.NewInt(int64(delta)))
		return rankCase{bigUnrank(r, k)}
	}
	k := rapid.IntRange(0, 10).Draw(t, "k")
	c := make([]int, k)
	prev := -1
	big := rapid.IntRange(0, 4).Draw(t, "big") == 0
	for i := range c {
		gap := rapid.IntRange(1, 6).Draw(t, "gap")
		if big && i == k-1 {
			gap = rapid.IntRange(1, 1<<40).Draw(t, "biggap")
		} else if rapid.IntRange(0, 5).Draw(t, "jump") == 0 {
			gap = rapid.IntRange(1, 3000).Draw(t, "jumpgap")
		}
		prev += gap
		c[i] = prev
	}
	return rankCase{c}
}

func checkRank(c rankCase, rec *Rec) error {
	want := bigRank(c.C)
	in := append([]int{}, c.C...)
	var got int
	p := try(func() { got = comb.Rank(in) })
	if !eqInts(in, c.C) {
		return fmt.Errorf("Rank modified its argument %v -> %v", c.C, in)
	}
	fits := want.Cmp(bigMaxInt) <= 0
	rec.Labelf("fits-%v", fits)
	rec.NonTrivial(len(c.C) >= 2)
	if !fits {
		if p == nil {
			return fmt.Errorf("Rank(%v) = %d but the rank %v does not fit an int (must panic, not wrap)", c.C, got, want)
		}
		return nil
	}
	guaranteed := true
	for i, v := range c.C {
		kk := i + 1
		if v-kk < kk {
			kk = v - kk
		}
		if kk < 0 {
			kk = 0
		}
		b := new(big.Int).Binomial(int64(v), int64(i+1))
		if new(big.Int).Mul(b, big.NewInt(int64(kk))).Cmp(bigMaxU64) > 0 {
			guaranteed = false
		}
	}
	if p != nil {
		if guaranteed {
			return fmt.Errorf("Rank(%v) panicked (%v) but the rank %v fits and every term is in Coeff's guaranteed range", c.C, p, want)
		}
		return nil
	}
	if int64(got) != want.Int64() {
		return fmt.Errorf("Rank(%v) = %d want %v", c.C, got, want)
	}
	// Unrank inverts it (cost bounded by the largest element)
	if len(c.C) > 0 && c.C[len(c.C)-1] > 5_000_000 {
		return nil
	}
	var back []int
	finished, pp := withDeadline(30*time.Second, func() { back = comb.Unrank(got, len(c.C)) })
	if !finished {
		return fmt.Errorf("Unrank(%d,%d) did not return within 30s (expected %v)", got, len(c.C), c.C)
	}
	if pp != nil {
		return fmt.Errorf("Unrank(%d,%d) panicked: %v", got, len(c.C), pp)
	}
	if !eqInts(back, c.C) {
		return fmt.Errorf("Unrank(Rank(%v)) = %v", c.C, back)
	}
	return nil
}

type colexCase struct{ N, K int }

// checkColexAgreement: the i-th value of CombinationsColex(n,k) has rank i, Unrank(i,k) is that value,
// and ranks increase along the colex order (monotonicity).
func checkColexAgreement(c colexCase, rec *Rec) error {
	it := itertools.CombinationsColex(c.N, c.K)
	total := new(big.Int).Binomial(int64(c.N), int64(c.K)).Int64()
	rec.NonTrivial(total >= 2)
	for i := int64(0); i < total; i++ {
		if !it.Next() {
			return fmt.Errorf("CombinationsColex(%d,%d) ended after %d of %d values", c.N, c.K, i, total)
		}
		v := append([]int{}, it.Value()...)
		if r := comb.Rank(v); int64(r) != i {
			return fmt.Errorf("CombinationsColex(%d,%d) value #%d = %v has Rank %d", c.N, c.K, i, v, r)
		}
		if u := comb.Unrank(int(i), c.K); !eqInts(u, v) {
			return fmt.Errorf("Unrank(%d,%d) = %v but CombinationsColex(%d,%d) value #%d = %v", i, c.K, u, c.N, c.K, i, v)
		}
	}
	if it.Next() {
		return fmt.Errorf("CombinationsColex(%d,%d) yields more than the C(n,k) = %d subsets that Rank/Unrank number: extra value %v", c.N, c.K, total, it.Value())
	}
	return nil
}

func init() {
	RegisterEnum("C16_coeff_table",
		"enumeration: every (n,k) with n <= 40, k <= n+2 (all rows of the built-in table and the first formula rows); for every k in 2..40 every n within 6 of the true threshold max{n: C(n,k)*k <= 2^64-1} (computed with math/big), direct and mirrored (k -> n-k); extreme n with k in {0,1,2,3,n-2,n-1,n}. Verdict: exact value, or a panic that is only allowed when C(n,k)*min(k,n-k) > 2^64-1. Non-trivial: n > 32 (formula path) and k <= n.",
		true, Budget{Shards: 1}, Budget{Shards: 1}, enumCoeffTable, checkCoeffU64)
	RegisterRapid("C16_coeff_random",
		"rapid: (n,k) in uint64 x uint64: small k with n of every bit length, neighbourhoods (+-40) of every overflow threshold, small rows, and unconstrained pairs; same verdict as C16_coeff_table. Non-trivial: n > 32 and k <= n.",
		Budget{Checks: 20000, Shards: 1}, Budget{Checks: 1000000, Shards: 8}, genCoeffCase, checkCoeffU64)
	RegisterRapid("C16_coeff_int",
		"rapid: Coeff(n,k) for ints: small n,k including negatives (documented panic for n<0, 0 for k<0), both sides of the MaxInt threshold for k <= 34, large n with tiny k. Non-trivial: n > 32 and 0 <= k <= n.",
		Budget{Checks: 10000, Shards: 1}, Budget{Checks: 500000, Shards: 4}, genCoeffIntCase, checkCoeffInt)
	RegisterEnum("C16_coeffs_pascal",
		"enumeration: Coeffs(n) for every n in 0..66 (66 is the last row whose middle entry fits an int64) compared entry by entry with math/big binomials. Non-trivial: n >= 2.",
		true, Budget{Shards: 1}, Budget{Shards: 1},
		func(yield func(coeffsCase) bool) {
			for n := 0; n <= 66; n++ {
				if !yield(coeffsCase{n}) {
					return
				}
			}
		}, checkCoeffs)
	subUnrank = RegisterRapid("C16_unrank",
		"rapid: (rank,k): k in 0..12; k>=3: rank of every bit length up to MaxInt (10% within 1000 of MaxInt); k in {1,2}: rank bounded so the answer's largest element is <= 2e5 (quick) / 3e6 (thorough) because Unrank walks upward by design. Oracle: big-int greedy colex unranking; Unrank must return within 20s + 1us per expected step (else reported as non-termination), equal the oracle, and Rank must invert it. Non-trivial: rank >= 2^32.",
		Budget{Checks: 3000, Shards: 1}, Budget{Checks: 100000, Shards: 16}, genUnrankCase, checkUnrank)
	RegisterRapid("C16_rank",
		"rapid: strictly increasing non-negative sequences of length 0..10 (small gaps, occasional jumps, 20% with a last element up to 2^40; a quarter of the cases are the k-subsets whose exact rank is MaxInt + delta, |delta| <= 3000, i.e. both sides of the overflow point); Rank equals the big-int definition when it fits, must panic (not wrap) when it does not, and Unrank inverts it. Non-trivial: length >= 2.",
		Budget{Checks: 6000, Shards: 1}, Budget{Checks: 300000, Shards: 8}, genRankCase, checkRank)
	RegisterEnum("C16_colex_agreement",
		"enumeration: every (n,k) with 0 <= k <= n <= 12 (thorough 14): the i-th value of CombinationsColex(n,k) has Rank i and equals Unrank(i,k) (order agreement and monotonicity). Non-trivial: C(n,k) >= 2.",
		true, Budget{Shards: 1}, Budget{Shards: 1},
		func(yield func(colexCase) bool) {
			for n := 0; n <= sz(12, 14); n++ {
				for k := 0; k <= n; k++ {
					if !yield(colexCase{n, k}) {
						return
					}
				}
			}
		}, checkColexAgreement)
}
