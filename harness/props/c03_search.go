package props

import (
	"bytes"
	"fmt"
	"io"
	"math/bits"
	"sort"
	"sync"
	"testing/iotest"

	"github.com/Tom-Johnston/mamba/graph"
	"github.com/Tom-Johnston/mamba/graph/search"
	"pgregory.net/rapid"
	"verifharness/oracle"
)

// C03: graph search yields exactly one representative of every isomorphism class.
// C04: a saved search resumes with exactly the remaining graphs.

// predSpec is a hereditary (induced-subgraph-closed) property; the search prunes graphs that do NOT have it.
type predSpec struct {
	Kind string // none maxdeg kfree maxedges hfree forest bipartite and or
	K    int
	H    GSpec      // forbidden induced subgraph for hfree
	Sub  []predSpec // operands of and / or
}

func (p predSpec) String() string {
	switch p.Kind {
	case "none":
		return "true"
	case "false":
		return "false"
	case "maxn":
		return fmt.Sprintf("vertices<=%d", p.K)
	case "maxdeg":
		return fmt.Sprintf("maxdeg<=%d", p.K)
	case "kfree":
		return fmt.Sprintf("K%d-free", p.K)
	case "maxedges":
		return fmt.Sprintf("edges<=%d", p.K)
	case "cokfree":
		return fmt.Sprintf("independence<%d", p.K)
	case "comaxdeg":
		return fmt.Sprintf("non-neighbours<=%d", p.K)
	case "hfree":
		return fmt.Sprintf("induced-%v-free", p.H)
	case "and", "or":
		return fmt.Sprintf("(%v %s %v)", p.Sub[0], p.Kind, p.Sub[1])
	}
	return p.Kind
}

func (p predSpec) holds(g *oracle.G) bool {
	switch p.Kind {
	case "none":
		return true
	case "false": // the empty class is hereditary too: nothing may be yielded, not even the null graph
		return false
	case "maxn":
		return g.N <= p.K
	case "maxdeg":
		for _, d := range g.Degs() {
			if d > p.K {
				return false
			}
		}
		return true
	case "kfree":
		return oracle.CliqueNumber(g) < p.K
	case "maxedges":
		return g.M() <= p.K
	case "comaxdeg": // every vertex has at most K non-neighbours (the complement has maximum degree <= K)
		for _, d := range g.Degs() {
			if g.N-1-d > p.K {
				return false
			}
		}
		return true
	case "cokfree": // no independent set of size K: dense graphs, parents of high minimum degree
		non := make([]uint64, g.N) // non-neighbours with a larger index
		for i := 0; i < g.N; i++ {
			for j := i + 1; j < g.N; j++ {
				if !g.A[i][j] {
					non[i] |= 1 << uint(j)
				}
			}
		}
		var indep func(cand uint64, need int) bool
		indep = func(cand uint64, need int) bool {
			if need == 0 {
				return true
			}
			for c := cand; c != 0; c &= c - 1 {
				v := bits.TrailingZeros64(c)
				if indep(cand&non[v], need-1) {
					return true
				}
			}
			return false
		}
		all := uint64(1)<<uint(g.N) - 1
		return !indep(all, p.K)
	case "forest":
		return g.M() == g.N-len(oracle.Components(g))
	case "bipartite":
		col := make([]int, g.N)
		for i := range col {
			col[i] = -1
		}
		for s := 0; s < g.N; s++ {
			if col[s] >= 0 {
				continue
			}
			col[s] = 0
			st := []int{s}
			for len(st) > 0 {
				v := st[len(st)-1]
				st = st[:len(st)-1]
				for _, u := range g.Nbrs(v) {
					if col[u] < 0 {
						col[u] = 1 - col[v]
						st = append(st, u)
					} else if col[u] == col[v] {
						return false
					}
				}
			}
		}
		return true
	case "hfree":
		h := p.H.Model()
		if h.N > g.N {
			return true
		}
		img := make([]int, h.N)
		used := make([]bool, g.N)
		var rec func(i int) bool
		rec = func(i int) bool {
			if i == h.N {
				return true
			}
			for v := 0; v < g.N; v++ {
				if used[v] {
					continue
				}
				ok := true
				for j := 0; j < i; j++ {
					if h.A[i][j] != g.A[v][img[j]] {
						ok = false
						break
					}
				}
				if ok {
					used[v] = true
					img[i] = v
					if rec(i + 1) {
						return true
					}
					used[v] = false
				}
			}
			return false
		}
		return !rec(0)
	case "and":
		return p.Sub[0].holds(g) && p.Sub[1].holds(g)
	case "or":
		return p.Sub[0].holds(g) || p.Sub[1].holds(g)
	}
	panic("harness: unknown predicate " + p.Kind)
}

func genPredSpec(t *rapid.T, depth int) predSpec {
	kinds := []string{"none", "maxdeg", "kfree", "maxedges", "hfree", "forest", "bipartite", "cokfree", "comaxdeg"}
	if depth == 0 {
		kinds = append(kinds, "and", "or")
	}
	p := predSpec{Kind: rapid.SampledFrom(kinds).Draw(t, "pred")}
	if rare(t, "degenerate", 15) {
		p.Kind = rapid.SampledFrom([]string{"false", "maxn"}).Draw(t, "degeneratekind")
		p.K = rapid.IntRange(0, 3).Draw(t, "maxn")
		return p
	}
	switch p.Kind {
	case "maxdeg", "comaxdeg":
		p.K = rapid.IntRange(0, 4).Draw(t, "d")
	case "kfree", "cokfree":
		p.K = rapid.IntRange(2, 5).Draw(t, "r")
		if rare(t, "rejectsK1", 12) {
			p.K = 1 // no graph with a vertex satisfies it: the search is pruned at its root and yields nothing
		}
	case "maxedges":
		p.K = rapid.IntRange(0, 9).Draw(t, "c")
	case "hfree":
		h := genGnp(t, rapid.IntRange(2, 4).Draw(t, "hn"))
		p.H = specOf(h)
	case "and", "or":
		p.Sub = []predSpec{genPredSpec(t, 1), genPredSpec(t, 1)}
	}
	return p
}

var (
	classCacheMu sync.Mutex
	classCache   = map[int][]string{}
	classGraphs  = map[int][]*oracle.G{}
)

// classesOn returns the representatives of all classes on n vertices with their oracle canonical keys (cached).
func classesOn(n int) ([]*oracle.G, []string) {
	classCacheMu.Lock()
	defer classCacheMu.Unlock()
	if _, ok := classCache[n]; !ok {
		gs := oracle.IsoClasses(n)
		keys := make([]string, len(gs))
		for i, g := range gs {
			keys[i] = oracle.Canon(g)
		}
		classGraphs[n], classCache[n] = gs, keys
	}
	return classGraphs[n], classCache[n]
}

var (
	satCacheMu sync.Mutex
	satCache   = map[string][]*oracle.G{}
)

// classesSatisfying returns one representative of every class on n vertices with the hereditary property p.
// n <= 8: the complete class list filtered. Larger n: every graph with p has a vertex-deleted subgraph with p, so the
// classes on n vertices are among the one-vertex extensions of the classes on n-1 vertices; extend, filter, and
// de-duplicate with the oracle canonical form (independent of the search under test).
func classesSatisfying(n int, p predSpec) []*oracle.G {
	key := fmt.Sprintf("%d|%v", n, p)
	satCacheMu.Lock()
	if r, ok := satCache[key]; ok {
		satCacheMu.Unlock()
		return r
	}
	satCacheMu.Unlock()
	var out []*oracle.G
	if n <= 8 {
		reps, _ := classesOn(n)
		for _, g := range reps {
			if p.holds(g) {
				out = append(out, g)
			}
		}
	} else {
		seen := map[string]bool{}
		for _, par := range classesSatisfying(n-1, p) {
			for mask := 0; mask < 1<<uint(n-1); mask++ {
				g := par.Copy()
				var nb []int
				for v := 0; v < n-1; v++ {
					if mask>>uint(v)&1 == 1 {
						nb = append(nb, v)
					}
				}
				g.AddVertex(nb)
				if !p.holds(g) {
					continue
				}
				k := oracle.Canon(g)
				if !seen[k] {
					seen[k] = true
					out = append(out, g)
				}
			}
		}
	}
	satCacheMu.Lock()
	satCache[key] = out
	satCacheMu.Unlock()
	return out
}

// strongPreds prune hard enough for searches on 9..11 vertices to stay small.
var strongPreds = []predSpec{{Kind: "forest"}, {Kind: "maxdeg", K: 2}, {Kind: "comaxdeg", K: 3}, {Kind: "maxdeg", K: 3}, {Kind: "comaxdeg", K: 2},
	{Kind: "and", Sub: []predSpec{{Kind: "kfree", K: 3}, {Kind: "maxdeg", K: 3}}},
	{Kind: "and", Sub: []predSpec{{Kind: "bipartite"}, {Kind: "maxdeg", K: 3}}}}

type searchCfg struct {
	N, M      int
	Pred      predSpec
	Placement string // "prune", "preprune", "split" (first operand of and as preprune, second as prune)
}

// pruneFuncs turns the spec into the two callbacks; bad records contract violations seen inside the callbacks.
func (c searchCfg) pruneFuncs(bad *error) (pre, post func(*graph.DenseGraph) bool) {
	never := func(*graph.DenseGraph) bool { return false }
	wrap := func(p predSpec) func(*graph.DenseGraph) bool {
		if p.Kind == "none" {
			return never
		}
		return func(d *graph.DenseGraph) bool {
			if d.N() > c.N || d.N() < 0 {
				*bad = fmt.Errorf("predicate called with a graph on %d vertices during a search for n=%d", d.N(), c.N)
				return true
			}
			g := oracle.New(d.N())
			cnt := 0
			for i := 0; i < d.N(); i++ {
				for j := 0; j < i; j++ {
					if d.IsEdge(i, j) {
						g.Add(i, j)
						cnt++
					}
				}
			}
			if cnt != d.M() || !eqInts(d.Degrees(), g.Degs()) {
				*bad = fmt.Errorf("predicate called with a malformed graph: M()=%d Degrees()=%v but edges %v", d.M(), d.Degrees(), clipEdges(g))
				return true
			}
			// what a caller's predicate would do: read the graph through the library's own helpers and views
			degs := g.Degs()
			mn, mx := d.N(), 0
			for _, x := range degs {
				mn, mx = min(mn, x), max(mx, x)
			}
			if a, b := graph.MinDegree(d), graph.MaxDegree(d); a != mn || b != mx {
				*bad = fmt.Errorf("inside a predicate: graph.MinDegree/MaxDegree = %d/%d but the graph handed over has degrees %v (edges %v)", a, b, degs, clipEdges(g))
				return true
			}
			co := graph.Complement(d)
			cd := co.Degrees()
			for v, x := range degs {
				if cd[v] != d.N()-1-x {
					*bad = fmt.Errorf("inside a predicate: Complement(g).Degrees() = %v but g has degrees %v", cd, degs)
					return true
				}
			}
			if co.M() != d.N()*(d.N()-1)/2-cnt || !eqInts(d.Degrees(), degs) {
				*bad = fmt.Errorf("inside a predicate: Complement(g).M() = %d, Degrees() afterwards %v; g has %d edges, degrees %v", co.M(), d.Degrees(), cnt, degs)
				return true
			}
			return !p.holds(g)
		}
	}
	switch c.Placement {
	case "preprune":
		return wrap(c.Pred), never
	case "split":
		if c.Pred.Kind == "and" {
			return wrap(c.Pred.Sub[0]), wrap(c.Pred.Sub[1])
		}
		return wrap(c.Pred), wrap(c.Pred)
	default:
		return never, wrap(c.Pred)
	}
}

func genSearchCfg(t *rapid.T, maxN int) searchCfg {
	n := rapid.IntRange(0, maxN).Draw(t, "n")
	if n < 4 && rapid.IntRange(0, 3).Draw(t, "bigger") != 0 {
		n = rapid.IntRange(min(4, maxN), maxN).Draw(t, "n2")
	}
	c := searchCfg{N: n, M: rapid.SampledFrom([]int{1, 1, 2, 3, 4, 5, 7, 64}).Draw(t, "m")}
	c.Pred = genPredSpec(t, 0)
	c.Placement = rapid.SampledFrom([]string{"prune", "preprune", "split"}).Draw(t, "placement")
	if c.Pred.Kind == "hfree" && c.N > 7 {
		c.N = 7
	}
	if rapid.IntRange(0, 5).Draw(t, "bigpruned") == 0 {
		// beyond the sizes where all classes can be listed: strong hereditary predicates on 9..10 (11) vertices
		c.Pred = strongPreds[rapid.IntRange(0, sz(3, len(strongPreds)-1)).Draw(t, "strong")]
		c.N = rapid.IntRange(9, sz(10, 11)).Draw(t, "bign")
	}
	return c
}

func checkSearchCfg(c searchCfg, rec *Rec) error {
	reps := classesSatisfying(c.N, c.Pred)
	keys := make([]string, len(reps))
	want := map[string]bool{}
	for i, g := range reps {
		keys[i] = oracle.Canon(g)
		want[keys[i]] = true
	}
	got := map[string]int{} // key -> shard that produced it
	total := 0
	for a := 0; a < c.M; a++ {
		var bad error
		pre, post := c.pruneFuncs(&bad)
		var it *search.GraphIterator
		if p := try(func() { it = search.WithPruning(c.N, a, c.M, pre, post) }); p != nil {
			return fmt.Errorf("WithPruning(%d,%d,%d) panicked: %v", c.N, a, c.M, p)
		}
		for {
			var ok bool
			if p := try(func() { ok = it.Next() }); p != nil {
				return fmt.Errorf("Next panicked (n=%d a=%d m=%d pred %v as %s) after %d graphs: %v", c.N, a, c.M, c.Pred, c.Placement, total, p)
			}
			if bad != nil {
				return fmt.Errorf("n=%d a=%d m=%d pred %v as %s: %v", c.N, a, c.M, c.Pred, c.Placement, bad)
			}
			if !ok {
				break
			}
			total++
			if total > len(reps)+5 {
				return fmt.Errorf("search n=%d m=%d yields more graphs (%d) than there are classes (%d)", c.N, c.M, total, len(reps))
			}
			v := it.Value()
			model, err := wellFormed(fmt.Sprintf("value #%d of the search n=%d a=%d m=%d", total, c.N, a, c.M), v)
			if err != nil {
				return err
			}
			if model.N != c.N {
				return fmt.Errorf("search for n=%d yielded a graph on %d vertices", c.N, model.N)
			}
			k := oracle.Canon(model)
			if b, dup := got[k]; dup {
				return fmt.Errorf("search n=%d m=%d pred %v as %s: the graph %v (shard %d) is isomorphic to one already yielded by shard %d", c.N, c.M, c.Pred, c.Placement, clipEdges(model), a, b)
			}
			got[k] = a
			if !want[k] {
				return fmt.Errorf("search n=%d m=%d pred %v as %s yielded %v, which does not satisfy the predicate (or is not a graph on n vertices)", c.N, c.M, c.Pred, c.Placement, clipEdges(model))
			}
		}
	}
	if len(got) != len(want) {
		for i, g := range reps {
			if want[keys[i]] {
				if _, ok := got[keys[i]]; !ok {
					return fmt.Errorf("search n=%d m=%d pred %v as %s never yields the class of %v (%d of %d classes found)", c.N, c.M, c.Pred, c.Placement, clipEdges(g), len(got), len(want))
				}
			}
		}
	}
	rec.NonTrivial(c.N >= 4 && (c.M >= 2 || c.Pred.Kind != "none"))
	rec.Labelf("n=%d", c.N)
	rec.Labelf("m=%d", c.M)
	rec.Label("pred-" + c.Pred.Kind)
	rec.Label("as-" + c.Placement)
	return nil
}

func enumSearchCfgs(yield func(searchCfg) bool) {
	preds := []predSpec{{Kind: "none"}, {Kind: "maxdeg", K: 2}, {Kind: "maxdeg", K: 3}, {Kind: "kfree", K: 3}, {Kind: "kfree", K: 4}, {Kind: "maxedges", K: 6},
		{Kind: "forest"}, {Kind: "bipartite"}, {Kind: "and", Sub: []predSpec{{Kind: "kfree", K: 3}, {Kind: "maxdeg", K: 3}}}, {Kind: "or", Sub: []predSpec{{Kind: "forest"}, {Kind: "maxedges", K: 4}}}}
	idx := 0
	for n := 0; n <= sz(6, 8); n++ {
		for m := 1; m <= sz(3, 4); m++ {
			for _, p := range preds {
				for _, pl := range []string{"prune", "preprune", "split"} {
					if p.Kind == "none" && pl != "prune" {
						continue
					}
					idx++
					if idx%NShards != Shard {
						continue
					}
					if !yield(searchCfg{N: n, M: m, Pred: p, Placement: pl}) {
						return
					}
				}
			}
		}
	}
	// degenerate hereditary classes on 0..3 vertices: the empty class (nothing may be yielded, not even the null graph),
	// "at most K vertices" (K = 0 accepts the null graph and rejects K1), K1-free
	for n := 0; n <= 3; n++ {
		for m := 1; m <= 2; m++ {
			for _, p := range []predSpec{{Kind: "false"}, {Kind: "maxn", K: 0}, {Kind: "maxn", K: 1}, {Kind: "maxn", K: 2}, {Kind: "kfree", K: 1}} {
				for _, pl := range []string{"prune", "preprune"} {
					idx++
					if idx%NShards != Shard {
						continue
					}
					if !yield(searchCfg{N: n, M: m, Pred: p, Placement: pl}) {
						return
					}
				}
			}
		}
	}
	// larger n under strong pruning (oracle: extension of the predicate-satisfying classes)
	for n := 9; n <= sz(10, 11); n++ {
		for pi, p := range strongPreds {
			if !Thorough && pi > 3 {
				continue
			}
			for _, m := range []int{1, 3} {
				idx++
				if idx%NShards != Shard {
					continue
				}
				pl := []string{"prune", "preprune", "split"}[(n+pi+m)%3]
				if !yield(searchCfg{N: n, M: m, Pred: p, Placement: pl}) {
					return
				}
			}
		}
	}
	if Thorough && Shard == 0 {
		yield(searchCfg{N: 9, M: 1, Pred: predSpec{Kind: "none"}, Placement: "prune"})
	}
	if Thorough && Shard == 1%NShards {
		yield(searchCfg{N: 9, M: 3, Pred: predSpec{Kind: "kfree", K: 3}, Placement: "prune"})
	}
}

// ---- C04 --------------------------------------------------------------------------------------

type slOp struct {
	Kind string // next save load
	I    int    // iterator index (next, save) or blob index (load)
	K    int    // next: how many times
}

type saveLoadCase struct {
	Cfg    searchCfg
	A      int
	Script []slOp
}

func graphString(d *graph.DenseGraph) string {
	var b bytes.Buffer
	fmt.Fprintf(&b, "n=%d m=%d deg=%v e=", d.N(), d.M(), d.Degrees())
	for i := 0; i < d.N(); i++ {
		for j := 0; j < i; j++ {
			if d.IsEdge(i, j) {
				fmt.Fprintf(&b, "%d-%d,", j, i)
			}
		}
	}
	return b.String()
}

func referenceSequence(c searchCfg, a int) ([]string, error) {
	var bad error
	pre, post := c.pruneFuncs(&bad)
	it := search.WithPruning(c.N, a, c.M, pre, post)
	var out []string
	for it.Next() {
		out = append(out, graphString(it.Value()))
		if len(out) > 300000 {
			return nil, fmt.Errorf("reference sequence too long")
		}
	}
	return out, bad
}

func genSaveLoadCase(t *rapid.T) saveLoadCase {
	c := saveLoadCase{Cfg: genSearchCfg(t, sz(6, 7))}
	big := rare(t, "bigcfg", uint64(sz(16, 10)))
	if big {
		// 9..10 vertices under a strong predicate: path counters and choice stacks beyond the small-n regime
		preds := append(append([]predSpec{}, strongPreds...), predSpec{Kind: "bipartite"}, predSpec{Kind: "and", Sub: []predSpec{{Kind: "kfree", K: 3}, {Kind: "maxdeg", K: 4}}},
			predSpec{Kind: "cokfree", K: 3}, predSpec{Kind: "cokfree", K: 3})
		c.Cfg = searchCfg{N: rapid.IntRange(9, 10).Draw(t, "bign"), Pred: preds[rapid.IntRange(0, len(preds)-1).Draw(t, "bigpred")],
			Placement: rapid.SampledFrom([]string{"prune", "preprune"}).Draw(t, "bigplace")}
	}
	c.Cfg.M = rapid.SampledFrom([]int{1, 1, 2, 3}).Draw(t, "m2")
	c.A = rapid.IntRange(0, c.Cfg.M-1).Draw(t, "a")
	iters, blobs := 1, 0
	steps := rapid.IntRange(2, sz(12, 30)).Draw(t, "steps")
	if big {
		steps = rapid.IntRange(2, 7).Draw(t, "bigsteps")
	}
	for s := 0; s < steps; s++ {
		kinds := []string{"next", "next", "save"}
		if blobs > 0 && iters < 5 {
			kinds = append(kinds, "load", "load")
		}
		op := slOp{Kind: rapid.SampledFrom(kinds).Draw(t, "op")}
		switch op.Kind {
		case "next":
			op.I = rapid.IntRange(0, iters-1).Draw(t, "iter")
			op.K = rapid.SampledFrom([]int{1, 1, 2, 3, 5, 10, 30, 50, 400, 2000}).Draw(t, "count")
			if c.Cfg.N >= 9 {
				op.K = rapid.SampledFrom([]int{1, 7, 50, 300, 1000, 2500, 9000}).Draw(t, "bigcount")
			}
		case "save":
			op.I = rapid.IntRange(0, iters-1).Draw(t, "iter")
			blobs++
		case "load":
			op.I = rapid.IntRange(0, blobs-1).Draw(t, "blob")
			iters++
		}
		c.Script = append(c.Script, op)
	}
	return c
}

func checkSaveLoadCase(c saveLoadCase, rec *Rec) error {
	ref, err := referenceSequence(c.Cfg, c.A)
	if err != nil {
		return err
	}
	type live struct {
		it   *search.GraphIterator
		pos  int  // graphs produced so far (including by its save-ancestors)
		done bool // Next has returned false
		bad  *error
	}
	newIter := func() *live {
		l := &live{bad: new(error)}
		pre, post := c.Cfg.pruneFuncs(l.bad)
		l.it = search.WithPruning(c.Cfg.N, c.A, c.Cfg.M, pre, post)
		return l
	}
	iters := []*live{newIter()}
	type blob struct {
		data []byte
		pos  int
		done bool
	}
	var blobs []blob
	desc := fmt.Sprintf("n=%d a=%d m=%d pred %v as %s", c.Cfg.N, c.A, c.Cfg.M, c.Cfg.Pred, c.Cfg.Placement)
	advance := func(idx int, l *live, k int) error {
		for s := 0; s < k; s++ {
			var ok bool
			if p := try(func() { ok = l.it.Next() }); p != nil {
				return fmt.Errorf("%s: iterator %d: Next panicked at position %d: %v", desc, idx, l.pos, p)
			}
			if *l.bad != nil {
				return fmt.Errorf("%s: iterator %d: %v", desc, idx, *l.bad)
			}
			if l.pos >= len(ref) || l.done {
				if ok {
					return fmt.Errorf("%s: iterator %d yields a graph after the %d graphs of the uninterrupted run (%s)", desc, idx, len(ref), graphString(l.it.Value()))
				}
				l.done = true
				return nil
			}
			if !ok {
				return fmt.Errorf("%s: iterator %d ends after %d graphs, the uninterrupted run yields %d", desc, idx, l.pos, len(ref))
			}
			if got := graphString(l.it.Value()); got != ref[l.pos] {
				return fmt.Errorf("%s: iterator %d: graph #%d is %s, the uninterrupted run has %s", desc, idx, l.pos, got, ref[l.pos])
			}
			l.pos++
		}
		return nil
	}
	midSave := false
	saveBufs := map[int]*bytes.Buffer{}
	for step, op := range c.Script {
		switch op.Kind {
		case "next":
			if err := advance(op.I, iters[op.I], op.K); err != nil {
				return fmt.Errorf("script step %d: %v", step, err)
			}
		case "save":
			l := iters[op.I]
			// successive saves of one iterator go through the same (reset) buffer in every other case, as a caller
			// that keeps overwriting one checkpoint would do
			if saveBufs[op.I] == nil || len(c.Script)%2 == 0 {
				saveBufs[op.I] = new(bytes.Buffer)
			}
			buf := saveBufs[op.I]
			buf.Reset()
			if p := try(func() { l.it.Save(buf) }); p != nil {
				return fmt.Errorf("%s: Save of iterator %d at position %d panicked: %v", desc, op.I, l.pos, p)
			}
			blobs = append(blobs, blob{append([]byte{}, buf.Bytes()...), l.pos, l.done})
			if l.pos > 0 && l.pos < len(ref) {
				midSave = true
			}
		case "load":
			b := blobs[op.I]
			l := &live{pos: b.pos, done: b.done, bad: new(error)}
			pre, post := c.Cfg.pruneFuncs(l.bad)
			if p := try(func() {
				l.it = search.Load(chunkedReader(append([]byte{}, b.data...), len(b.data)+op.I+l.pos), pre, post)
			}); p != nil {
				return fmt.Errorf("%s: Load of the state saved at position %d panicked: %v", desc, b.pos, p)
			}
			iters = append(iters, l)
		}
	}
	// every iterator, original or loaded, must still produce exactly the rest of the reference sequence;
	// advance them round-robin so that state shared between an iterator and its copies shows up
	for remaining := true; remaining; {
		remaining = false
		for idx, l := range iters {
			if l.done {
				continue
			}
			if err := advance(idx, l, 7); err != nil {
				return fmt.Errorf("draining: %v", err)
			}
			if !l.done {
				remaining = true
			}
		}
	}
	for idx, l := range iters {
		if l.pos != len(ref) {
			return fmt.Errorf("%s: iterator %d stopped after %d of %d graphs", desc, idx, l.pos, len(ref))
		}
		// exhausted iterators stay exhausted
		if err := advance(idx, l, 2); err != nil {
			return err
		}
	}
	// a saved state is self-contained: loading the same blob again after everything else ran gives the same suffix
	for bi, b := range blobs {
		l := &live{pos: b.pos, done: b.done, bad: new(error)}
		pre, post := c.Cfg.pruneFuncs(l.bad)
		if p := try(func() { l.it = search.Load(chunkedReader(b.data, len(b.data)/3), pre, post) }); p != nil {
			return fmt.Errorf("%s: re-loading blob %d panicked: %v", desc, bi, p)
		}
		if err := advance(-1-bi, l, len(ref)+2); err != nil {
			return fmt.Errorf("re-loaded blob %d: %v", bi, err)
		}
		if l.pos != len(ref) {
			return fmt.Errorf("%s: blob %d saved at %d resumes to %d of %d graphs", desc, bi, b.pos, l.pos, len(ref))
		}
	}
	rec.NonTrivial(midSave && c.Cfg.N >= 4)
	rec.Labelf("n=%d", c.Cfg.N)
	rec.Labelf("iterators-%d", len(iters))
	return nil
}

type saveEveryCase struct {
	Cfg    searchCfg
	A      int
	Stride int // 0 or 1: every position; otherwise only positions k with k % Stride == Offset (large configurations are split)
	Offset int
	Prefix int // 0: the loaded iterator is drained; otherwise it is compared on its next Prefix graphs (drained at every 16th position)
	// DrainEvery: with Prefix > 0, drain the loaded iterator completely at every DrainEvery-th position (0 = 16)
	DrainEvery int `json:",omitempty"`
}

// checkSaveEveryPosition: save at EVERY position k of the run (before the first Next, after each graph, after exhaustion)
// and require the loaded iterator to yield exactly ref[k:], while the original continues undisturbed.
func checkSaveEveryPosition(c saveEveryCase, rec *Rec) error {
	ref, err := referenceSequence(c.Cfg, c.A)
	if err != nil {
		return err
	}
	desc := fmt.Sprintf("n=%d a=%d m=%d pred %v", c.Cfg.N, c.A, c.Cfg.M, c.Cfg.Pred)
	var bad error
	pre, post := c.Cfg.pruneFuncs(&bad)
	orig := search.WithPruning(c.Cfg.N, c.A, c.Cfg.M, pre, post)
	for k := 0; k <= len(ref)+1; k++ {
		if c.Stride > 1 && k%c.Stride != c.Offset {
			var ok bool
			if p := try(func() { ok = orig.Next() }); p != nil {
				return fmt.Errorf("%s: original panicked at %d: %v", desc, k, p)
			}
			if ok != (k < len(ref)) || (ok && graphString(orig.Value()) != ref[k]) {
				return fmt.Errorf("%s: original diverges from the reference at position %d", desc, k)
			}
			continue
		}
		var buf bytes.Buffer
		if p := try(func() { orig.Save(&buf) }); p != nil {
			return fmt.Errorf("%s: Save at position %d panicked: %v", desc, k, p)
		}
		var bad2 error
		pre2, post2 := c.Cfg.pruneFuncs(&bad2)
		var ld *search.GraphIterator
		if p := try(func() { ld = search.Load(chunkedReader(buf.Bytes(), k), pre2, post2) }); p != nil {
			return fmt.Errorf("%s: Load at position %d panicked: %v", desc, k, p)
		}
		for pos := min(k, len(ref)); ; pos++ {
			if c.Prefix > 0 && (k/max(c.Stride, 1))%max(16, c.DrainEvery) != 0 && pos >= k+c.Prefix {
				break // a wrong resume shows at once; the full remainder is compared at every 16th position of the slice
			}
			var ok bool
			if p := try(func() { ok = ld.Next() }); p != nil {
				return fmt.Errorf("%s: loaded iterator (saved at %d) panicked at %d: %v", desc, k, pos, p)
			}
			if pos >= len(ref) {
				if ok {
					return fmt.Errorf("%s: loaded iterator (saved at %d) yields an extra graph", desc, k)
				}
				break
			}
			if !ok {
				return fmt.Errorf("%s: loaded iterator (saved at %d) ends after %d of %d graphs", desc, k, pos, len(ref))
			}
			if got := graphString(ld.Value()); got != ref[pos] {
				return fmt.Errorf("%s: loaded iterator (saved at %d): graph #%d is %s want %s", desc, k, pos, got, ref[pos])
			}
		}
		var ok bool
		if p := try(func() { ok = orig.Next() }); p != nil {
			return fmt.Errorf("%s: original panicked at %d after a Save: %v", desc, k, p)
		}
		if ok != (k < len(ref)) {
			return fmt.Errorf("%s: original Next at position %d returned %v", desc, k, ok)
		}
		if ok {
			if got := graphString(orig.Value()); got != ref[k] {
				return fmt.Errorf("%s: original disturbed by Save: graph #%d is %s want %s", desc, k, got, ref[k])
			}
		}
	}
	rec.NonTrivial(len(ref) >= 3)
	SetExtra(fmt.Sprintf("save_positions_%s_a%d", desc, c.A), len(ref)+2)
	return nil
}

func enumSaveEvery(yield func(saveEveryCase) bool) {
	// K1-free rejects the one-vertex graph itself: the search is over after the first Next and must still save and load
	preds := []predSpec{{Kind: "none"}, {Kind: "kfree", K: 3}, {Kind: "kfree", K: 1}, {Kind: "maxedges", K: 2}}
	idx := 0
	if Thorough {
		// thousands of graphs on 10 vertices (path counters above 255, long choice stacks): every position, split in 32 slices
		for _, p := range []predSpec{{Kind: "bipartite"}, {Kind: "cokfree", K: 3}} {
			for off := 0; off < 32; off++ {
				idx++
				if idx%NShards != Shard {
					continue
				}
				if !yield(saveEveryCase{Cfg: searchCfg{N: 10, M: 1, Pred: p, Placement: "prune"}, Stride: 32, Offset: off, Prefix: 300}) {
					return
				}
			}
		}
	}
	// every save position of All(8) (12347 graphs; choice stacks of several hundred entries) and of one share of a split
	// of it; thorough: every position of All(9) (274668 graphs). The loaded iterator is compared on its next two graphs
	// and drained completely at every 1024th (16384th) position.
	big := []saveEveryCase{{Cfg: searchCfg{N: 8, M: 1, Pred: predSpec{Kind: "none"}, Placement: "prune"}, Prefix: 2, DrainEvery: 1024},
		{Cfg: searchCfg{N: 8, M: 3, Pred: predSpec{Kind: "none"}, Placement: "prune"}, A: 1, Prefix: 2, DrainEvery: 1024}}
	if Thorough {
		big = append(big, saveEveryCase{Cfg: searchCfg{N: 9, M: 1, Pred: predSpec{Kind: "none"}, Placement: "prune"}, Prefix: 2, DrainEvery: 16384})
	}
	for _, bc := range big {
		idx++
		if idx%NShards != Shard {
			continue
		}
		if !yield(bc) {
			return
		}
	}
	for n := 0; n <= sz(5, 6); n++ {
		for m := 1; m <= 3; m++ {
			for a := 0; a < m; a++ {
				for _, p := range preds {
					idx++
					if idx%NShards != Shard {
						continue
					}
					placement := "prune"
					if p.Kind != "none" && (n+m+a)%2 == 1 {
						placement = "preprune"
					}
					if !yield(saveEveryCase{Cfg: searchCfg{N: n, M: m, Pred: p, Placement: placement}, A: a}) {
						return
					}
				}
			}
		}
	}
}

func sortedKeysOf(m map[string]bool) []string {
	r := make([]string, 0, len(m))
	for k := range m {
		r = append(r, k)
	}
	sort.Strings(r)
	return r
}

func init() {
	RegisterRapid("C03_search_generated",
		"rapid: (n <= 7 quick / 8 thorough - and in one case in six n = 9..10 (11) under a strong predicate (forest, max degree <= 2/3, at most 2/3 non-neighbours per vertex - a dense class -, triangle-free or bipartite with max degree <= 3), where the oracle classes come from the oracle's own extension of the predicate-satisfying classes -, split modulus m in {1,2,3,4,5,7,64}, hereditary predicate from a DSL: none, max degree <= d, K_r-free, <= c edges, induced-H-free for a generated H on 2..4 vertices, forest, bipartite, and/or of two; placed as prune, as preprune, or split over both). All m shards are run to exhaustion. Oracle: the oracle's own class list for n filtered by the predicate, keyed by the oracle canonical form. Every yielded value must be a well-formed DenseGraph on n vertices; the union over shards must contain no two isomorphic graphs, nothing that fails the predicate, and every class that satisfies it. The callbacks also check every graph they are shown. Non-trivial: n >= 4 and (m >= 2 or a real predicate).",
		Budget{Checks: 400, Shards: 1}, Budget{Checks: 1200, Shards: 16},
		func(t *rapid.T) searchCfg { return genSearchCfg(t, sz(7, 8)) }, checkSearchCfg)
	RegisterEnum("C03_search_configurations",
		"enumeration: every (n <= 6 quick / 8 thorough) x (m <= 3 / 4) x {none, maxdeg<=2, maxdeg<=3, triangle-free, K4-free, <=6 edges, forest, bipartite, triangle-free and maxdeg<=3, forest or <=4 edges} x {prune, preprune, split}; plus n = 9..10 (thorough 11) under the strong predicates with m in {1,3}; thorough adds All(9) and triangle-free n=9 m=3. Same checks as C03_search_generated.",
		true, Budget{Shards: 1}, Budget{Shards: 8}, enumSearchCfgs, checkSearchCfg)
	RegisterRapid("C04_save_load_scripts",
		"rapid: a search configuration (n <= 6/7, m <= 3, shard a, DSL predicate; about one case in sixteen (thorough: ten) n = 9..10 under a strong predicate incl. bipartite, triangle-free with max degree <= 4 and independence number <= 2, i.e. thousands of graphs, path counters above 255) and a script over up to 5 live iterators: Next x k (k up to 2000, so exhaustion is reached), Save(iterator) -> blob (in half of the cases successive saves of an iterator reuse one reset buffer), Load(blob) -> new iterator, including chains save-load-advance-save. Oracle: the uninterrupted output sequence (graph, M, Degrees as text). Every Next of every iterator must return the reference graph at that iterator's position; at the end all iterators are drained round-robin to exactly the reference suffix, exhausted iterators stay exhausted, and every blob is loaded once more and must still resume correctly (so a blob shares nothing with live iterators). Non-trivial: a save strictly inside the run with n >= 4.",
		Budget{Checks: 450, Shards: 1}, Budget{Checks: 600, Shards: 16}, genSaveLoadCase, checkSaveLoadCase)
	RegisterEnum("C04_save_at_every_position",
		"enumeration: for every (n <= 5 quick / 6 thorough, m <= 3, a < m, predicate none / triangle-free) Save is called at EVERY position k = 0..len(output)+1 (before the first Next, after each graph, after exhaustion); the loaded iterator must yield exactly the remaining graphs and the original must continue undisturbed. Thorough adds every position of the bipartite search and of the search for graphs without an independent set of size 3 on 10 vertices (5479 and 12172 graphs; the latter has 9-vertex parents of minimum degree >= 4, hence path counters above 255); there the loaded iterator is compared on its next 300 graphs at every position and drained at every 16th. Complete over save positions for those configurations.",
		true, Budget{Shards: 1}, Budget{Shards: 8}, enumSaveEvery, checkSaveEveryPosition)
}

// chunkedReader delivers the saved bytes the way different io.Readers would: all at once (bytes.Reader), one byte per
// Read, half of what was asked for, or the last bytes together with io.EOF; which one depends on variant.
func chunkedReader(data []byte, variant int) io.Reader {
	r := bytes.NewReader(data)
	switch variant % 4 {
	case 1:
		return iotest.OneByteReader(r)
	case 2:
		return iotest.HalfReader(r)
	case 3:
		return iotest.DataErrReader(r)
	}
	return r
}
