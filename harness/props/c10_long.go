package props

import (
	"fmt"
	"sort"

	"github.com/Tom-Johnston/mamba/graph"
	"pgregory.net/rapid"
	"verifharness/oracle"
)

// C10 on graphs with 257..2000 vertices, far beyond the sizes where cubic oracles are affordable: block trees built
// piece by piece (long paths of bridges, long cycles, K4s glued at cut vertices), for which blocks, articulation
// vertices and girth are known BY CONSTRUCTION and distances come from a breadth-first search over adjacency lists.
// Distances above 255, queues longer than 256, vertex labels above 255 and 1023 all occur.

type longPiece struct {
	Kind string // "path" (Len bridges), "cycle" (one block on Len vertices), "k4"
	Len  int
	At   uint64 // attached at vertex At mod (number of vertices so far)
}

type longCase struct {
	Pieces   []longPiece
	Second   []longPiece // a second component (optional)
	Isolated int
	Seed     uint64 // relabelling
}

type builtLong struct {
	n      int
	edges  [][2]int
	blocks [][]int
	girth  int
}

func (b *builtLong) addPieces(ps []longPiece) {
	start := b.n
	b.n++ // root of this component
	if len(ps) == 0 {
		b.blocks = append(b.blocks, []int{start})
		return
	}
	for _, p := range ps {
		at := start + int(p.At%uint64(b.n-start))
		switch p.Kind {
		case "path":
			prev := at
			for i := 0; i < p.Len; i++ {
				b.edges = append(b.edges, [2]int{prev, b.n})
				b.blocks = append(b.blocks, []int{prev, b.n})
				prev = b.n
				b.n++
			}
		case "cycle":
			blk := []int{at}
			prev := at
			for i := 1; i < p.Len; i++ {
				b.edges = append(b.edges, [2]int{prev, b.n})
				blk = append(blk, b.n)
				prev = b.n
				b.n++
			}
			b.edges = append(b.edges, [2]int{prev, at})
			b.blocks = append(b.blocks, blk)
			if b.girth < 0 || p.Len < b.girth {
				b.girth = p.Len
			}
		case "k4":
			vs := []int{at, b.n, b.n + 1, b.n + 2}
			b.n += 3
			for i := 0; i < 4; i++ {
				for j := 0; j < i; j++ {
					b.edges = append(b.edges, [2]int{vs[j], vs[i]})
				}
			}
			b.blocks = append(b.blocks, vs)
			b.girth = 3
		}
	}
}

// genLongPieces draws pieces for a component with EXACTLY target vertices.
func genLongPieces(t *rapid.T, target int) []longPiece {
	var ps []longPiece
	for n := 1; n < target; {
		left := target - n
		kinds := []string{"path", "path"}
		if left >= 2 {
			kinds = append(kinds, "cycle", "cycle")
		}
		if left >= 3 {
			kinds = append(kinds, "k4")
		}
		p := longPiece{Kind: rapid.SampledFrom(kinds).Draw(t, "kind"), At: rapid.Uint64().Draw(t, "at")}
		if rapid.IntRange(0, 2).Draw(t, "atEnd") == 0 {
			p.At = uint64(n - 1) // continue at the newest vertex: long chains, large distances
		}
		switch p.Kind {
		case "path":
			p.Len = rapid.IntRange(1, min(400, left)).Draw(t, "len")
			n += p.Len
		case "cycle":
			p.Len = rapid.IntRange(3, min(600, left+1)).Draw(t, "len")
			n += p.Len - 1
		default:
			n += 3
		}
		ps = append(ps, p)
	}
	return ps
}

func genLongCase(t *rapid.T) longCase {
	var total int
	switch rapid.IntRange(0, 2).Draw(t, "sizeclass") {
	case 0: // a multiple of 64, or next to one
		total = 64*rapid.IntRange(1, sz(10, 31)).Draw(t, "words") + rapid.SampledFrom([]int{0, 0, 0, -1, 1}).Draw(t, "off")
	case 1:
		total = rapid.IntRange(40, 256).Draw(t, "mid")
	default:
		total = rapid.IntRange(257, sz(700, 2000)).Draw(t, "n")
	}
	c := longCase{Seed: rapid.Uint64().Draw(t, "seed")}
	if rapid.IntRange(0, 4).Draw(t, "iso") == 0 {
		c.Isolated = rapid.IntRange(1, 3).Draw(t, "isolated")
	}
	first := total - c.Isolated
	if rapid.IntRange(0, 3).Draw(t, "two") == 0 {
		second := rapid.IntRange(2, max(2, min(300, first/2))).Draw(t, "n2")
		c.Second = genLongPieces(t, second)
		first -= second
	}
	c.Pieces = genLongPieces(t, first)
	return c
}

func checkLongCase(c longCase, rec *Rec) error {
	b := &builtLong{girth: -1}
	b.addPieces(c.Pieces)
	comps := 1
	if c.Second != nil {
		b.addPieces(c.Second)
		comps++
	}
	for i := 0; i < c.Isolated; i++ {
		b.addPieces(nil)
		comps++
	}
	n := b.n
	pi := newPrng(c.Seed, 10).perm(n) // vertex v of the construction gets label pi[v]
	nb := make([][]int, n)
	for _, e := range b.edges {
		u, v := pi[e[0]], pi[e[1]]
		nb[u] = append(nb[u], v)
		nb[v] = append(nb[v], u)
	}
	for v := range nb {
		sort.Ints(nb[v])
	}
	rec.NonTrivial(n >= 64)
	rec.Labelf("n-multiple-of-64:%v", n%64 == 0)
	rec.Labelf("n-%d", bucket(n))
	rec.Labelf("components-%d", comps)
	sp := graph.NewSparse(n, nil)
	for _, e := range b.edges {
		sp.AddEdge(pi[e[0]], pi[e[1]])
	}
	inputs := []struct {
		name string
		g    graph.Graph
	}{{"sparse", sp}}
	if n <= 420 {
		d := graph.NewDense(n, nil)
		for _, e := range b.edges {
			d.AddEdge(pi[e[0]], pi[e[1]])
		}
		inputs = append(inputs, struct {
			name string
			g    graph.Graph
		}{"dense", d})
	}
	// reference distances: BFS over the adjacency lists
	bfs := func(s int) []int {
		d := make([]int, n)
		for i := range d {
			d[i] = -1
		}
		d[s] = 0
		q := []int{s}
		for len(q) > 0 {
			v := q[0]
			q = q[1:]
			for _, u := range nb[v] {
				if d[u] < 0 {
					d[u] = d[v] + 1
					q = append(q, u)
				}
			}
		}
		return d
	}
	wantEcc := make([]int, n)
	wantDiam, wantRad := 0, n
	far := [2]int{0, 0}
	for s := 0; s < n; s++ {
		for v, x := range bfs(s) {
			if x > wantEcc[s] {
				wantEcc[s] = x
				if x > wantDiam {
					far = [2]int{s, v}
				}
			}
		}
		wantDiam = max(wantDiam, wantEcc[s])
		wantRad = min(wantRad, wantEcc[s])
	}
	if comps > 1 {
		for i := range wantEcc {
			wantEcc[i] = -1
		}
		wantDiam, wantRad = -1, -1
	}
	rec.Labelf("diameter>255:%v", wantDiam > 255)
	var wantBlocks [][]int
	inBlocks := make([]int, n)
	for _, blk := range b.blocks {
		m := make([]int, len(blk))
		for i, v := range blk {
			m[i] = pi[v]
			inBlocks[pi[v]]++
		}
		sort.Ints(m)
		wantBlocks = append(wantBlocks, m)
	}
	var wantArt []int
	for v, k := range inBlocks {
		if k >= 2 {
			wantArt = append(wantArt, v)
		}
	}
	rng := newPrng(c.Seed, 11)
	for _, in := range inputs {
		fail := func(f string, args ...any) error {
			return fmt.Errorf("[%s; block tree on %d vertices in %d components, pieces %v / %v, relabelled with seed %d] %s", in.name, n, comps, clipPieces(c.Pieces), clipPieces(c.Second), c.Seed, fmt.Sprintf(f, args...))
		}
		var p any
		pairs := [][2]int{far, {far[1], far[0]}, {0, n - 1}, {n - 1, 0}, {min(255, n-1), min(256, n-1)}, {min(256, n-1), 0}, {63 % n, 64 % n}}
		for k := 0; k < 24; k++ {
			pairs = append(pairs, [2]int{rng.intn(n), rng.intn(n)})
		}
		for _, pr := range pairs {
			want := bfs(pr[0])[pr[1]]
			var d int
			if p = try(func() { d = graph.Distance(in.g, pr[0], pr[1]) }); p != nil {
				return fail("Distance(%d,%d) panicked: %v", pr[0], pr[1], p)
			}
			if d != want {
				return fail("Distance(%d,%d) = %d want %d", pr[0], pr[1], d, want)
			}
		}
		var ecc []int
		var diam, rad, girth int
		if p = try(func() { ecc = graph.Eccentricity(in.g); diam = graph.Diameter(in.g); rad = graph.Radius(in.g) }); p != nil {
			return fail("Eccentricity/Diameter/Radius panicked: %v", p)
		}
		if !eqInts(ecc, wantEcc) {
			return fail("Eccentricity = %v want %v", clipInts(ecc), clipInts(wantEcc))
		}
		if diam != wantDiam || rad != wantRad {
			return fail("Diameter, Radius = %d, %d want %d, %d", diam, rad, wantDiam, wantRad)
		}
		if p = try(func() { girth = graph.Girth(in.g) }); p != nil {
			return fail("Girth panicked: %v", p)
		}
		if girth != b.girth {
			return fail("Girth = %d want %d", girth, b.girth)
		}
		var ccs [][]int
		if p = try(func() { ccs = graph.ConnectedComponents(in.g) }); p != nil {
			return fail("ConnectedComponents panicked: %v", p)
		}
		if len(ccs) != comps {
			return fail("ConnectedComponents returned %d components want %d", len(ccs), comps)
		}
		seen := make([]bool, n)
		for _, cc := range ccs {
			if len(cc) == 0 || !sort.IntsAreSorted(cc) {
				return fail("ConnectedComponents returned the component %v", clipInts(cc))
			}
			d := bfs(cc[0])
			reach := 0
			for _, x := range d {
				if x >= 0 {
					reach++
				}
			}
			if reach != len(cc) {
				return fail("ConnectedComponents: the component of %d has %d vertices, returned %d", cc[0], reach, len(cc))
			}
			for _, v := range cc {
				if v < 0 || v >= n || seen[v] || d[v] < 0 {
					return fail("ConnectedComponents: vertex %d repeated, out of range or not connected to %d", v, cc[0])
				}
				seen[v] = true
			}
			var one []int
			v0 := cc[len(cc)/2]
			if p = try(func() { one = graph.ConnectedComponent(in.g, v0) }); p != nil {
				return fail("ConnectedComponent(%d) panicked: %v", v0, p)
			}
			if !eqInts(one, cc) {
				return fail("ConnectedComponent(%d) = %v but ConnectedComponents lists %v", v0, clipInts(one), clipInts(cc))
			}
		}
		var blocks [][]int
		var art []int
		if p = try(func() { blocks, art = graph.BiconnectedComponents(in.g) }); p != nil {
			return fail("BiconnectedComponents panicked: %v", p)
		}
		for _, blk := range blocks {
			if !sort.IntsAreSorted(blk) {
				return fail("BiconnectedComponents returned the unsorted block %v", clipInts(blk))
			}
		}
		if got, want := fmt.Sprint(sortedSets(blocks)), fmt.Sprint(sortedSets(wantBlocks)); got != want {
			return fail("BiconnectedComponents: %d blocks, by construction there are %d: %s want %s", len(blocks), len(wantBlocks), clip(got, 300), clip(want, 300))
		}
		if !eqInts(oracle.SortedCopy(art), wantArt) {
			return fail("BiconnectedComponents articulation vertices = %v want %v (no repeats)", clipInts(art), clipInts(wantArt))
		}
	}
	return nil
}

func clipPieces(p []longPiece) string {
	if len(p) > 12 {
		return fmt.Sprintf("%v...(%d pieces)", p[:12], len(p))
	}
	return fmt.Sprint(p)
}

func init() {
	RegisterRapid("C10_block_trees_by_construction",
		"rapid: block trees with an exactly chosen number of vertices - a third of the cases 64k or 64k+-1 for k up to 10 (thorough 31), a third 40..256, a third 257..700 (thorough 2000) - built piece by piece (paths of up to 400 bridges, cycles of up to 600 vertices, K4s, each glued at a drawn or at the newest vertex), optionally a second component and isolated vertices, relabelled by a seed-derived permutation; SparseGraph input (and DenseGraph up to 420 vertices). Blocks, articulation vertices and girth are known by construction, distances/eccentricities from a BFS over adjacency lists: Distance on the farthest pair, label-boundary pairs and 24 random pairs, Eccentricity, Diameter, Radius (-1 when disconnected), Girth, ConnectedComponents (partition into BFS-closed sorted sets) and ConnectedComponent, BiconnectedComponents as sets and the repeat-free articulation set. Non-trivial: n >= 64; labels report whether n is a multiple of 64 and whether the diameter exceeds 255.",
		Budget{Checks: 60, Shards: 2}, Budget{Checks: 200, Shards: 16}, genLongCase, checkLongCase)
}
