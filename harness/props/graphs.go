package props

import (
	"fmt"
	"sort"

	"github.com/Tom-Johnston/mamba/graph"
	"github.com/Tom-Johnston/mamba/sortints"
	"pgregory.net/rapid"
	"verifharness/oracle"
)

// GSpec is the plain-data form of a graph used in cases and replay files.
type GSpec struct {
	N int
	E [][2]int
}

func (s GSpec) Model() *oracle.G { return oracle.FromEdges(s.N, s.E) }

func specOf(g *oracle.G) GSpec {
	e := g.Edges()
	if e == nil {
		e = [][2]int{}
	}
	return GSpec{N: g.N, E: e}
}

// denseOf builds a DenseGraph directly from its exported fields (independent of NewDense).
func denseOf(g *oracle.G) *graph.DenseGraph {
	n := g.N
	edges := make([]byte, n*(n-1)/2)
	deg := make([]int, n)
	m := 0
	for j := 0; j < n; j++ {
		for i := 0; i < j; i++ {
			if g.A[i][j] {
				edges[j*(j-1)/2+i] = 1
				deg[i]++
				deg[j]++
				m++
			}
		}
	}
	return &graph.DenseGraph{NumberOfVertices: n, NumberOfEdges: m, DegreeSequence: deg, Edges: edges}
}

// sparseOf builds a SparseGraph directly from its exported fields (independent of NewSparse).
func sparseOf(g *oracle.G) *graph.SparseGraph {
	n := g.N
	nb := make([]sortints.SortedInts, n)
	deg := make([]int, n)
	for v := 0; v < n; v++ {
		nb[v] = sortints.SortedInts(g.Nbrs(v))
		deg[v] = len(nb[v])
	}
	return &graph.SparseGraph{NumberOfVertices: n, NumberOfEdges: g.M(), Neighbourhoods: nb, DegreeSequence: deg}
}

// reps returns the graph in every representation the library offers, by name.
func buildAllReps(g *oracle.G) map[string]graph.Graph {
	idn := make([]int, g.N)
	for i := range idn {
		idn[i] = i
	}
	// a DenseGraph whose edge bytes are 1, 2 or 255 (any non-zero byte is an edge; ChromaticIndex returns such arrays)
	nonUnit := denseOf(g)
	for i := range nonUnit.Edges {
		if nonUnit.Edges[i] != 0 {
			nonUnit.Edges[i] = []byte{1, 2, 255}[i%3]
		}
	}
	// views that are not the identity: a reversed induced-subgraph view, and a view of a view (two different shuffles)
	rev := make([]int, g.N)
	for i := range rev {
		rev[i] = g.N - 1 - i
	}
	v1 := make([]int, g.N)
	v2 := make([]int, g.N)
	for i := range v1 {
		v1[i] = (i + 1) % g.N // rotation
		v2[i] = i ^ 1         // swap neighbours
		if v2[i] >= g.N {
			v2[i] = i
		}
	}
	// nested[i] = inner[v2[i]] = base[v1[v2[i]]]: choose base so that the outer view equals g
	comp := make([]int, g.N)
	for i := range comp {
		comp[i] = v1[v2[i]]
	}
	// graphs that have an edit history: g with an extra isolated vertex in the middle, removed again
	mid := g.N / 2
	withExtra := oracle.New(g.N + 1)
	for _, e := range g.Edges() {
		a, b := e[0], e[1]
		if a >= mid {
			a++
		}
		if b >= mid {
			b++
		}
		withExtra.Add(a, b)
	}
	sparseEdited := sparseOf(withExtra)
	sparseEdited.RemoveVertex(mid)
	denseEdited := denseOf(withExtra)
	denseEdited.RemoveVertex(mid)
	// graphs that were copied and then grown: g without its last vertex, Copy(), AddVertex(neighbours of the last vertex)
	var sparseCopiedGrown, denseCopiedGrown graph.Graph
	if g.N >= 1 {
		less := g.Copy()
		last := g.N - 1
		nb := g.Nbrs(last)
		less.RemoveVertex(last)
		sc := sparseOf(less).Copy()
		sc.AddVertex(append([]int{}, nb...))
		sparseCopiedGrown = sc
		dc := denseOf(less).Copy()
		dc.AddVertex(append([]int{}, nb...))
		denseCopiedGrown = dc
	} else {
		sparseCopiedGrown, denseCopiedGrown = sparseOf(g), denseOf(g)
	}
	// a longer edit history ending in g: g without its last vertex, plus a junk vertex in the middle that is adjacent to
	// every second vertex and to the (then) last one; the junk vertex is removed (a RemoveVertex of a middle vertex
	// adjacent to the last vertex), then the last vertex of g is added with its neighbours
	var sparseHistory, denseHistory graph.Graph
	if g.N >= 2 {
		last := g.N - 1
		nbLast := g.Nbrs(last)
		less := g.Copy()
		less.RemoveVertex(last)
		pos := less.N / 2
		withJunk := oracle.New(less.N + 1)
		for _, e := range less.Edges() {
			a, b := e[0], e[1]
			if a >= pos {
				a++
			}
			if b >= pos {
				b++
			}
			withJunk.Add(a, b)
		}
		for v := 0; v < withJunk.N; v++ {
			if v != pos && (v%2 == 0 || v == withJunk.N-1) {
				withJunk.Add(pos, v)
			}
		}
		sh := sparseOf(withJunk)
		sh.RemoveVertex(pos)
		sh.AddVertex(append([]int{}, nbLast...))
		sparseHistory = sh
		dh := denseOf(withJunk)
		dh.RemoveVertex(pos)
		dh.AddVertex(append([]int{}, nbLast...))
		denseHistory = dh
	} else {
		sparseHistory, denseHistory = sparseOf(g), denseOf(g)
	}
	// a small view of a much larger host: every vertex of g gets 9 private pendant vertices plus 8n+8 common
	// neighbours, original vertex i sits at host label 3i+1 so that host neighbour lists interleave members and
	// non-members of the view
	hostN := 3*g.N + 2 + 8*g.N + 8
	host := oracle.New(hostN)
	at := func(i int) int { return 3*i + 1 }
	view := make([]int, g.N)
	for i := range view {
		view[i] = at(i)
	}
	for _, e := range g.Edges() {
		host.Add(at(e[0]), at(e[1]))
	}
	for i := 0; i < g.N; i++ {
		for x := 0; x < hostN; x++ {
			if x%3 != 1 || x >= 3*g.N+2 { // not a view vertex
				if (x+i)%3 == 0 || x >= 3*g.N+2 { // view vertices i = 2 mod 3 have no host neighbour between consecutive view labels
					host.Add(at(i), x)
				}
			}
		}
	}
	return map[string]graph.Graph{
		"sparse-history":      sparseHistory,
		"dense-history":       denseHistory,
		"user-defined":        userGraph{g.Copy()},
		"dense-value":         *denseOf(g),
		"sparse-copied-grown": sparseCopiedGrown,
		"dense-copied-grown":  denseCopiedGrown,
		"sparse-edited":       sparseEdited,
		"dense-edited":        denseEdited,
		"induced-bighost":     graph.InducedSubgraph(sparseOf(host), view),
		"induced-reversed":    graph.InducedSubgraph(sparseOf(g.Induced(invPerm(rev))), rev),
		"induced-nested":      graph.InducedSubgraph(graph.InducedSubgraph(denseOf(g.Induced(invPerm(comp))), v1), v2),
		"dense-bytes":         nonUnit,
		"dense":               denseOf(g),
		"sparse":              sparseOf(g),
		"cocomp":              graph.Complement(graph.Complement(denseOf(g))),
		"comp-dense":          graph.Complement(denseOf(g.Complement())),
		"induced":             graph.InducedSubgraph(sparseOf(g), idn),
	}
}

// reps returns the graph in every representation the library offers, by name.
func reps(g *oracle.G) map[string]graph.Graph { return buildAllReps(g) }

// userGraph is a caller's own implementation of graph.Graph (the library must work through the interface alone).
type userGraph struct{ m *oracle.G }

func (u userGraph) N() int               { return u.m.N }
func (u userGraph) M() int               { return u.m.M() }
func (u userGraph) IsEdge(i, j int) bool { return u.m.A[i][j] }
func (u userGraph) Neighbours(v int) []int {
	nb := u.m.Nbrs(v)
	if nb == nil {
		nb = []int{}
	}
	return nb
}
func (u userGraph) Degrees() []int { return u.m.Degs() }

// repOf builds one representation. The cheap ones are built directly; the others come from buildAllReps.
func repOf(g *oracle.G, name string) graph.Graph {
	switch name {
	case "dense":
		return denseOf(g)
	case "sparse":
		return sparseOf(g)
	case "user-defined":
		return userGraph{g.Copy()}
	case "dense-value":
		return *denseOf(g) // a DenseGraph value, not a pointer: it implements Graph as well
	case "cocomp":
		return graph.Complement(graph.Complement(denseOf(g)))
	case "comp-dense":
		return graph.Complement(denseOf(g.Complement()))
	case "induced":
		idn := make([]int, g.N)
		for i := range idn {
			idn[i] = i
		}
		return graph.InducedSubgraph(sparseOf(g), idn)
	}
	return buildAllReps(g)[name]
}

var repNames = []string{"dense", "sparse", "cocomp", "comp-dense", "induced", "dense-bytes", "induced-reversed", "induced-nested", "sparse-edited", "dense-edited", "induced-bighost", "sparse-copied-grown", "dense-copied-grown", "user-defined", "dense-value", "sparse-history", "dense-history"}

// wellFormed checks the observers of any graph.Graph against each other and returns the graph read through IsEdge.
func wellFormed(what string, gr graph.Graph) (*oracle.G, error) {
	var model *oracle.G
	var err error
	if p := try(func() { model, err = wellFormedInner(what, gr) }); p != nil {
		return nil, fmt.Errorf("%s: observer panicked: %v", what, p)
	}
	return model, err
}

func wellFormedInner(what string, gr graph.Graph) (*oracle.G, error) {
	n := gr.N()
	if n < 0 {
		return nil, fmt.Errorf("%s: N() = %d", what, n)
	}
	g := oracle.New(n)
	for i := 0; i < n; i++ {
		if gr.IsEdge(i, i) {
			return nil, fmt.Errorf("%s: IsEdge(%d,%d) is true (loop)", what, i, i)
		}
		for j := 0; j < i; j++ {
			a, b := gr.IsEdge(i, j), gr.IsEdge(j, i)
			if a != b {
				return nil, fmt.Errorf("%s: IsEdge(%d,%d)=%v but IsEdge(%d,%d)=%v", what, i, j, a, j, i, b)
			}
			if a {
				g.Add(i, j)
			}
		}
	}
	if m := gr.M(); m != g.M() {
		return nil, fmt.Errorf("%s: M() = %d but IsEdge reports %d edges (n=%d, edges %v)", what, m, g.M(), n, clipEdges(g))
	}
	degs := gr.Degrees()
	if !eqInts(degs, g.Degs()) {
		return nil, fmt.Errorf("%s: Degrees() = %v but adjacency gives %v (edges %v)", what, degs, g.Degs(), clipEdges(g))
	}
	for v := 0; v < n; v++ {
		nb := gr.Neighbours(v)
		if !eqInts(nb, g.Nbrs(v)) {
			return nil, fmt.Errorf("%s: Neighbours(%d) = %v but adjacency gives %v", what, v, nb, g.Nbrs(v))
		}
	}
	return g, nil
}

func clipEdges(g *oracle.G) string {
	e := g.Edges()
	if len(e) > 30 {
		return fmt.Sprint(e[:30]) + "..."
	}
	return fmt.Sprint(e)
}

// sameAs checks that gr is well formed and equal to the model.
func sameAs(what string, gr graph.Graph, want *oracle.G) error {
	got, err := wellFormed(what, gr)
	if err != nil {
		return err
	}
	if !got.Equal(want) {
		return fmt.Errorf("%s: graph is n=%d %v, want n=%d %v", what, got.N, clipEdges(got), want.N, clipEdges(want))
	}
	return nil
}

// ---- model graph constructors (harness's own, from the definitions) ----------------------------

func mCycle(n int) *oracle.G {
	g := oracle.New(n)
	for i := 0; i < n; i++ {
		g.Add(i, (i+1)%n)
	}
	return g
}

func mPath(n int) *oracle.G {
	g := oracle.New(n)
	for i := 0; i+1 < n; i++ {
		g.Add(i, i+1)
	}
	return g
}

func mComplete(n int) *oracle.G { return oracle.New(n).Complement() }

func mCompleteMultipartite(parts []int) *oracle.G {
	n := 0
	for _, p := range parts {
		n += p
	}
	part := make([]int, 0, n)
	for i, p := range parts {
		for k := 0; k < p; k++ {
			part = append(part, i)
		}
	}
	g := oracle.New(n)
	for i := 0; i < n; i++ {
		for j := 0; j < i; j++ {
			if part[i] != part[j] {
				g.Add(i, j)
			}
		}
	}
	return g
}

func mCirculant(n int, diffs []int) *oracle.G {
	g := oracle.New(n)
	for i := 0; i < n; i++ {
		for _, d := range diffs {
			j := ((i+d)%n + n) % n
			g.Add(i, j)
		}
	}
	return g
}

func mHypercube(d int) *oracle.G {
	n := 1 << uint(d)
	g := oracle.New(n)
	for i := 0; i < n; i++ {
		for b := 0; b < d; b++ {
			g.Add(i, i^(1<<uint(b)))
		}
	}
	return g
}

func subsetsOfSize(n, k int) [][]int { return allCombinationsLex(n, k) }

func intersects(a, b []int) int {
	c := 0
	for _, x := range a {
		for _, y := range b {
			if x == y {
				c++
			}
		}
	}
	return c
}

func mKneser(n, k int) *oracle.G { // lex order of subsets (order is irrelevant for an abstract graph)
	s := subsetsOfSize(n, k)
	g := oracle.New(len(s))
	for i := range s {
		for j := 0; j < i; j++ {
			if intersects(s[i], s[j]) == 0 {
				g.Add(i, j)
			}
		}
	}
	return g
}

func mJohnson(n, k int) *oracle.G {
	s := subsetsOfSize(n, k)
	g := oracle.New(len(s))
	for i := range s {
		for j := 0; j < i; j++ {
			if intersects(s[i], s[j]) == k-1 {
				g.Add(i, j)
			}
		}
	}
	return g
}

func mRook(a, b int) *oracle.G {
	g := oracle.New(a * b)
	for i := 0; i < a*b; i++ {
		for j := 0; j < i; j++ {
			if i/b == j/b || i%b == j%b {
				g.Add(i, j)
			}
		}
	}
	return g
}

func mPaley(q int) *oracle.G { // q prime, q = 1 mod 4
	qr := map[int]bool{}
	for x := 1; x < q; x++ {
		qr[x*x%q] = true
	}
	g := oracle.New(q)
	for i := 0; i < q; i++ {
		for j := 0; j < i; j++ {
			if qr[(i-j)%q] {
				g.Add(i, j)
			}
		}
	}
	return g
}

func mCayleyZaZb(a, b int, conn [][2]int) *oracle.G {
	g := oracle.New(a * b)
	for x := 0; x < a; x++ {
		for y := 0; y < b; y++ {
			for _, c := range conn {
				x2, y2 := ((x+c[0])%a+a)%a, ((y+c[1])%b+b)%b
				g.Add(x*b+y, x2*b+y2)
			}
		}
	}
	return g
}

func mShrikhande() *oracle.G {
	return mCayleyZaZb(4, 4, [][2]int{{1, 0}, {0, 1}, {1, 1}})
}

func mGenPetersen(n, k int) *oracle.G {
	g := oracle.New(2 * n)
	for i := 0; i < n; i++ {
		g.Add(i, (i+1)%n)
		g.Add(i, n+i)
		g.Add(n+i, n+(i+k)%n)
	}
	return g
}

func mWheel(n int) *oracle.G { // hub + cycle on n-1 vertices
	g := mCycle(n - 1)
	all := make([]int, n-1)
	for i := range all {
		all[i] = i
	}
	g.AddVertex(all)
	return g
}

func mMycielski(g *oracle.G) *oracle.G {
	n := g.N
	h := oracle.New(2*n + 1)
	for _, e := range g.Edges() {
		h.Add(e[0], e[1])
		h.Add(e[0], n+e[1])
		h.Add(e[1], n+e[0])
	}
	for i := 0; i < n; i++ {
		h.Add(n+i, 2*n)
	}
	return h
}

func mProduct(kind string, a, b *oracle.G) *oracle.G {
	g := oracle.New(a.N * b.N)
	id := func(x, y int) int { return x*b.N + y }
	for x1 := 0; x1 < a.N; x1++ {
		for y1 := 0; y1 < b.N; y1++ {
			for x2 := 0; x2 < a.N; x2++ {
				for y2 := 0; y2 < b.N; y2++ {
					if id(x1, y1) >= id(x2, y2) {
						continue
					}
					ax, by := x1 != x2 && a.A[x1][x2], y1 != y2 && b.A[y1][y2]
					var e bool
					switch kind {
					case "cartesian":
						e = (x1 == x2 && by) || (y1 == y2 && ax)
					case "tensor":
						e = ax && by
					case "strong":
						e = (x1 == x2 && by) || (y1 == y2 && ax) || (ax && by)
					case "lex":
						e = ax || (x1 == x2 && by)
					}
					if e {
						g.Add(id(x1, y1), id(x2, y2))
					}
				}
			}
		}
	}
	return g
}

func mJoin(a, b *oracle.G) *oracle.G {
	g := oracle.DisjointUnion(a, b)
	for i := 0; i < a.N; i++ {
		for j := 0; j < b.N; j++ {
			g.Add(i, a.N+j)
		}
	}
	return g
}

// ---- rapid generators ---------------------------------------------------------------------

func genGnp(t *rapid.T, n int) *oracle.G {
	g := oracle.New(n)
	num := rapid.IntRange(0, 8).Draw(t, "density") // edge probability num/8
	for j := 0; j < n; j++ {
		for i := 0; i < j; i++ {
			if rapid.IntRange(0, 7).Draw(t, "e") < num {
				g.Add(i, j)
			}
		}
	}
	return g
}

// genRegular: a circulant d-regular graph randomised by double-edge switches (keeps every degree).
func genRegular(t *rapid.T, n int) *oracle.G {
	if n < 3 {
		return oracle.New(n)
	}
	d := rapid.IntRange(2, min(n-1, 6)).Draw(t, "d")
	if n*d%2 == 1 {
		d--
	}
	var diffs []int
	for k := 1; k <= d/2; k++ {
		diffs = append(diffs, k)
	}
	if d%2 == 1 {
		diffs = append(diffs, n/2)
	}
	g := mCirculant(n, diffs)
	sw := rapid.IntRange(0, 3*n).Draw(t, "switches")
	for s := 0; s < sw; s++ {
		es := g.Edges()
		if len(es) < 2 {
			break
		}
		e1 := es[rapid.IntRange(0, len(es)-1).Draw(t, "e1")]
		e2 := es[rapid.IntRange(0, len(es)-1).Draw(t, "e2")]
		a, b, c, dd := e1[0], e1[1], e2[0], e2[1]
		if rapid.Bool().Draw(t, "flip") {
			c, dd = dd, c
		}
		// replace ab, cd by ac, bd when that keeps the graph simple
		if a == c || a == dd || b == c || b == dd || g.Has(a, c) || g.Has(b, dd) {
			continue
		}
		g.Del(a, b)
		g.Del(c, dd)
		g.Add(a, c)
		g.Add(b, dd)
	}
	return g
}

func genSmallBase(t *rapid.T, maxN int) *oracle.G {
	n := rapid.IntRange(1, maxN).Draw(t, "bn")
	switch rapid.IntRange(0, 4).Draw(t, "bkind") {
	case 0:
		return mCycle(max(n, 3))
	case 1:
		return mPath(n)
	case 2:
		return mComplete(n)
	case 3:
		return genGnp(t, n)
	default:
		return oracle.New(n)
	}
}

// genSymmetric draws from families whose canonical-labelling search needs automorphism pruning.
func genSymmetric(t *rapid.T, maxN int) *oracle.G {
	if maxN < 6 {
		return genGnp(t, rapid.IntRange(0, max(maxN, 0)).Draw(t, "n"))
	}
	fit := func(g *oracle.G) *oracle.G {
		if g.N > maxN {
			keep := make([]int, maxN)
			for i := range keep {
				keep[i] = i
			}
			return g.Induced(keep)
		}
		return g
	}
	switch rapid.IntRange(0, 15).Draw(t, "family") {
	case 0, 1, 2:
		return genRegular(t, rapid.IntRange(3, maxN).Draw(t, "n"))
	case 3:
		n := rapid.IntRange(3, maxN).Draw(t, "n")
		k := rapid.IntRange(1, 3).Draw(t, "ndiffs")
		diffs := make([]int, k)
		for i := range diffs {
			diffs[i] = rapid.IntRange(1, n-1).Draw(t, "diff")
		}
		return mCirculant(n, diffs)
	case 4:
		a := rapid.IntRange(2, 5).Draw(t, "a")
		b := rapid.IntRange(2, 5).Draw(t, "b")
		k := rapid.IntRange(1, 3).Draw(t, "nconn")
		conn := make([][2]int, k)
		for i := range conn {
			conn[i] = [2]int{rapid.IntRange(0, a-1).Draw(t, "cx"), rapid.IntRange(0, b-1).Draw(t, "cy")}
		}
		return fit(mCayleyZaZb(a, b, conn))
	case 5:
		return fit(mHypercube(rapid.IntRange(1, 4).Draw(t, "d")))
	case 6:
		switch rapid.IntRange(0, 5).Draw(t, "named") {
		case 0:
			return fit(mKneser(5, 2)) // Petersen
		case 1:
			return fit(mPaley(rapid.SampledFrom([]int{5, 13, 17}).Draw(t, "q")))
		case 2:
			return fit(mShrikhande())
		case 3:
			return fit(mJohnson(rapid.IntRange(4, 6).Draw(t, "jn"), 2)) // triangular graphs
		case 4:
			return fit(mKneser(rapid.IntRange(4, 6).Draw(t, "kn"), 2))
		default:
			n := rapid.IntRange(3, 8).Draw(t, "gpn")
			return fit(mGenPetersen(n, rapid.IntRange(1, (n-1)/2).Draw(t, "gpk")))
		}
	case 7:
		return fit(mRook(rapid.IntRange(2, 4).Draw(t, "ra"), rapid.IntRange(2, 5).Draw(t, "rb")))
	case 8:
		k := rapid.IntRange(2, 4).Draw(t, "nparts")
		parts := make([]int, k)
		for i := range parts {
			parts[i] = rapid.IntRange(1, 4).Draw(t, "part")
		}
		return fit(mCompleteMultipartite(parts))
	case 9:
		kind := rapid.SampledFrom([]string{"cartesian", "tensor", "strong", "lex"}).Draw(t, "prod")
		return fit(mProduct(kind, genSmallBase(t, 4), genSmallBase(t, 4)))
	case 10, 11:
		// k disjoint copies of one graph, optionally plus a different component
		h := genSmallBase(t, 5)
		if rapid.Bool().Draw(t, "symbase") {
			h = genSymmetric(t, 6)
		}
		k := rapid.IntRange(2, 4).Draw(t, "copies")
		g := h.Copy()
		for i := 1; i < k && g.N+h.N <= maxN; i++ {
			g = oracle.DisjointUnion(g, h)
		}
		if rapid.Bool().Draw(t, "extra") {
			x := genSmallBase(t, 4)
			if g.N+x.N <= maxN {
				g = oracle.DisjointUnion(g, x)
			}
		}
		return fit(g)
	case 12:
		return fit(mJoin(genSmallBase(t, 5), genSmallBase(t, 5)))
	case 13:
		return fit(mWheel(rapid.IntRange(4, maxN).Draw(t, "wn")))
	default:
		return genGnp(t, rapid.IntRange(0, maxN).Draw(t, "n"))
	}
}

// genPerturbed: a symmetric graph, optionally complemented, with a few toggled edges / added vertices, relabelled.
func genAnyGraph(t *rapid.T, maxN int) *oracle.G {
	var g *oracle.G
	if rapid.IntRange(0, 3).Draw(t, "plain") == 0 {
		g = genGnp(t, rapid.IntRange(0, maxN).Draw(t, "n"))
	} else {
		g = genSymmetric(t, maxN)
	}
	if rapid.IntRange(0, 3).Draw(t, "complement") == 0 {
		g = g.Complement()
	}
	for k := rapid.SampledFrom([]int{0, 0, 0, 1, 2}).Draw(t, "toggles"); k > 0 && g.N >= 2; k-- {
		i := rapid.IntRange(0, g.N-1).Draw(t, "ti")
		j := rapid.IntRange(0, g.N-1).Draw(t, "tj")
		if i != j {
			if g.Has(i, j) {
				g.Del(i, j)
			} else {
				g.Add(i, j)
			}
		}
	}
	if g.N < maxN {
		switch rapid.IntRange(0, 9).Draw(t, "addv") {
		case 0:
			g.AddVertex(nil)
		case 1:
			all := make([]int, g.N)
			for i := range all {
				all[i] = i
			}
			g.AddVertex(all)
		}
	}
	if g.N > 1 && rapid.Bool().Draw(t, "relabel") {
		g = g.Induced(genPerm(t, g.N, "relabel"))
	}
	return tameForCanon(g)
}

func genPerm(t *rapid.T, n int, label string) []int {
	p := make([]int, n)
	for i := range p {
		p[i] = i
	}
	if n < 2 {
		return p
	}
	return rapid.Permutation(p).Draw(t, label)
}

func invPerm(p []int) []int {
	q := make([]int, len(p))
	for i, v := range p {
		q[v] = i
	}
	return q
}

// sortedSets normalises a family of vertex sets for comparison as a set of sets.
func sortedSets(sets [][]int) []string {
	r := make([]string, len(sets))
	for i, s := range sets {
		r[i] = fmt.Sprint(oracle.SortedCopy(s))
	}
	sort.Strings(r)
	return r
}

// builtBy returns g as a DenseGraph and a SparseGraph produced by the library's own constructors or decoders
// ("literal" = assembled from the exported fields). Edit histories and transformations must work on all of them.
var buildWays = []string{"literal", "constructors", "decoders", "edited", "nonunit"}

func builtBy(how string, g *oracle.G) (d *graph.DenseGraph, s *graph.SparseGraph, err error) {
	if p := try(func() {
		switch how {
		case "constructors":
			n := g.N
			b := make([]byte, n*(n-1)/2)
			for _, e := range g.Edges() {
				b[e[1]*(e[1]-1)/2+e[0]] = 1
			}
			d = graph.NewDense(n, b)
			lists := make([]sortints.SortedInts, n)
			for v := range lists {
				lists[v] = sortints.SortedInts(g.Nbrs(v))
			}
			s = graph.NewSparse(n, lists)
		case "nonunit":
			// NewDense with edge markers other than 1 (any non-zero byte is an edge); the sparse twin is built normally
			n := g.N
			b := make([]byte, n*(n-1)/2)
			for k, e := range g.Edges() {
				b[e[1]*(e[1]-1)/2+e[0]] = []byte{1, 2, 255, 7}[k%4]
			}
			d = graph.NewDense(n, b)
			s = sparseOf(g)
		case "decoders":
			var e1, e2 error
			d, e1 = graph.Graph6Decode(oracle.RefGraph6(g))
			s, e2 = graph.Sparse6Decode(oracle.RefSparse6(g))
			if e1 != nil || e2 != nil {
				err = fmt.Errorf("decoding the reference encoding failed: %v %v", e1, e2)
			}
		case "edited":
			// built by the editing API from the empty graph
			d = graph.NewDense(0, nil)
			s = graph.NewSparse(0, nil)
			for v := 0; v < g.N; v++ {
				var nb []int
				for _, u := range g.Nbrs(v) {
					if u < v {
						nb = append(nb, u)
					}
				}
				d.AddVertex(nb)
				s.AddVertex(nb)
			}
		default:
			d, s = denseOf(g), sparseOf(g)
		}
	}); p != nil {
		return nil, nil, fmt.Errorf("building the graph (%s) panicked: %v", how, p)
	}
	return d, s, err
}

// mLatinSquareGraph: vertices are the cells of the square, adjacent when in the same row, the same column or carrying
// the same symbol (a strongly regular graph with few automorphisms for a generic square).
func mLatinSquareGraph(sq [][]int) *oracle.G {
	n := len(sq)
	g := oracle.New(n * n)
	for a := 0; a < n*n; a++ {
		for b := 0; b < a; b++ {
			if a/n == b/n || a%n == b%n || sq[a/n][a%n] == sq[b/n][b%n] {
				g.Add(a, b)
			}
		}
	}
	return g
}

// genLatinSquare: a base square (cyclic group, the non-abelian group of order 6, or a non-group square of order 5)
// with rows, columns and symbols permuted and a few intercalate switches.
func genLatinSquare(t *rapid.T) [][]int {
	var sq [][]int
	switch rapid.IntRange(0, 2).Draw(t, "lsbase") {
	case 0:
		n := rapid.IntRange(3, 6).Draw(t, "lsn")
		sq = make([][]int, n)
		for i := range sq {
			sq[i] = make([]int, n)
			for j := range sq[i] {
				sq[i][j] = (i + j) % n
			}
		}
	case 1: // S3
		sq = [][]int{{0, 1, 2, 3, 4, 5}, {1, 2, 0, 4, 5, 3}, {2, 0, 1, 5, 3, 4}, {3, 5, 4, 0, 2, 1}, {4, 3, 5, 1, 0, 2}, {5, 4, 3, 2, 1, 0}}
	default: // a Latin square of order 5 that is not a group table
		sq = [][]int{{0, 1, 2, 3, 4}, {1, 0, 3, 4, 2}, {2, 3, 4, 0, 1}, {3, 4, 1, 2, 0}, {4, 2, 0, 1, 3}}
	}
	n := len(sq)
	rp, cp2, sp := genPerm(t, n, "lsrows"), genPerm(t, n, "lscols"), genPerm(t, n, "lssyms")
	out := make([][]int, n)
	for i := range out {
		out[i] = make([]int, n)
		for j := range out[i] {
			out[i][j] = sp[sq[rp[i]][cp2[j]]]
		}
	}
	// intercalate switches: a 2x2 subsquare a b / b a can be flipped to b a / a b
	for k := rapid.IntRange(0, 4).Draw(t, "lsswitch"); k > 0; k-- {
		r1, r2 := rapid.IntRange(0, n-1).Draw(t, "r1"), rapid.IntRange(0, n-1).Draw(t, "r2")
		c1 := rapid.IntRange(0, n-1).Draw(t, "c1")
		if r1 == r2 {
			continue
		}
		for c2 := 0; c2 < n; c2++ {
			if c2 != c1 && out[r1][c2] == out[r2][c1] && out[r2][c2] == out[r1][c1] {
				out[r1][c1], out[r1][c2] = out[r1][c2], out[r1][c1]
				out[r2][c1], out[r2][c2] = out[r2][c2], out[r2][c1]
				break
			}
		}
	}
	return out
}

// genLargeSymmetric: graphs on 13..maxN vertices whose refinement has cells of 13, 20, 30+ vertices.
func genLargeSymmetric(t *rapid.T, maxN int) *oracle.G {
	var g *oracle.G
	switch rapid.IntRange(0, 6).Draw(t, "lkind") {
	case 0: // disjoint cycles of similar lengths (+ an isolated vertex)
		g = oracle.New(0)
		for k := rapid.IntRange(2, 4).Draw(t, "ncycles"); k > 0; k-- {
			g = oracle.DisjointUnion(g, mCycle(rapid.IntRange(3, 12).Draw(t, "len")))
		}
		if rapid.Bool().Draw(t, "iso") {
			g.AddVertex(nil)
		}
	case 1: // copies of one graph on 7..13 vertices, optionally plus a different piece
		h := genGnp(t, rapid.IntRange(7, 13).Draw(t, "hn"))
		if rapid.Bool().Draw(t, "hsym") {
			h = genSymmetric(t, 12)
		}
		g = h.Copy()
		for k := rapid.IntRange(1, 2).Draw(t, "copies"); k > 0; k-- {
			g = oracle.DisjointUnion(g, h)
		}
		if rapid.Bool().Draw(t, "other") {
			g = oracle.DisjointUnion(g, genGnp(t, rapid.IntRange(1, 6).Draw(t, "on")))
		}
	case 2:
		g = mLatinSquareGraph(genLatinSquare(t))
	case 3:
		g = genRegular(t, rapid.IntRange(14, 30).Draw(t, "rn"))
	case 4: // big twin classes, slightly perturbed
		k := rapid.IntRange(2, 3).Draw(t, "parts")
		parts := make([]int, k)
		for i := range parts {
			parts[i] = rapid.IntRange(5, 14).Draw(t, "part")
		}
		g = mCompleteMultipartite(parts)
	case 5:
		switch rapid.IntRange(0, 4).Draw(t, "lnamed") {
		case 0:
			g = mRook(rapid.IntRange(3, 5).Draw(t, "ra"), rapid.IntRange(4, 6).Draw(t, "rb"))
		case 1:
			g = mKneser(6, 2)
		case 2:
			g = mJohnson(6, 3)
		case 3:
			g = mHypercube(rapid.IntRange(4, 5).Draw(t, "qd"))
		default:
			g = mPaley(rapid.SampledFrom([]int{13, 17, 29}).Draw(t, "q"))
		}
	default: // a sparse random graph with many leaves and isolated vertices (large cells of low degree)
		n := rapid.IntRange(14, 40).Draw(t, "sn")
		g = oracle.New(n)
		for e := rapid.IntRange(0, n).Draw(t, "se"); e > 0; e-- {
			g.Add(rapid.IntRange(0, n-1).Draw(t, "su"), rapid.IntRange(0, n-1).Draw(t, "sv"))
		}
	}
	if g.N > maxN {
		keep := make([]int, maxN)
		for i := range keep {
			keep[i] = i
		}
		g = g.Induced(keep)
	}
	if rapid.IntRange(0, 3).Draw(t, "lcomp") == 0 {
		g = g.Complement()
	}
	for k := rapid.SampledFrom([]int{0, 0, 1, 2}).Draw(t, "ltoggles"); k > 0 && g.N >= 2; k-- {
		i, j := rapid.IntRange(0, g.N-1).Draw(t, "ti"), rapid.IntRange(0, g.N-1).Draw(t, "tj")
		if i != j {
			if g.Has(i, j) {
				g.Del(i, j)
			} else {
				g.Add(i, j)
			}
		}
	}
	if g.N > 1 {
		g = g.Induced(genPerm(t, g.N, "lrelabel"))
	}
	return tameForCanon(g)
}

// tameForCanon replaces a graph that is the JOIN of five or more pieces (its complement has >= 5 components with at
// least two vertices) by its complement. The library's canonical labelling needs time that grows super-exponentially
// with the number of joined pieces of equal degree (join of four independent triples and three 2K2: 1.3 s; one more
// triple: more than 30 s; the 30-vertex case met in a thorough run: not finished after 45 minutes). Running time is
// not part of any listed property, so such inputs are kept out of the generators; the complement (a disjoint union)
// is labelled in microseconds and exercises the same component structure.
func tameForCanon(g *oracle.G) *oracle.G {
	if g.N < 14 {
		return g
	}
	big := 0
	for _, c := range oracle.Components(g.Complement()) {
		if len(c) >= 2 {
			big++
		}
	}
	if big >= 5 {
		return g.Complement()
	}
	return g
}
