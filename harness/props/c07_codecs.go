package props

import (
	"bytes"
	"fmt"
	"strings"
	"time"

	"github.com/Tom-Johnston/mamba/graph"
	"github.com/Tom-Johnston/mamba/sortints"
	"pgregory.net/rapid"
	"verifharness/oracle"
)

// C07: codecs round-trip every graph and follow the format definitions.
// C08: text decoders are total.

// codecCase describes a graph compactly: n, a hash-defined edge set of density Dens/8, explicit extra
// edges, and two corner switches. The graph is a pure function of these fields.
type codecCase struct {
	N           int
	Dens        int // 0..8: edge ij present iff hash(Seed,i,j) mod 8 < Dens
	Seed        uint64
	Extra       [][2]int // toggled afterwards
	IsolateLast bool     // remove all edges at vertex n-1 (sparse6 padding corner)
	Rep         string
}

func (c codecCase) Model() *oracle.G {
	g := oracle.New(c.N)
	if c.Dens > 0 {
		for j := 0; j < c.N; j++ {
			for i := 0; i < j; i++ {
				if c.Dens >= 8 || hashPrefix(c.Seed, []int{i, j})%8 < uint64(c.Dens) {
					g.Add(i, j)
				}
			}
		}
	}
	for _, e := range c.Extra {
		if e[0] == e[1] || e[0] >= c.N || e[1] >= c.N {
			continue
		}
		if g.Has(e[0], e[1]) {
			g.Del(e[0], e[1])
		} else {
			g.Add(e[0], e[1])
		}
	}
	if c.IsolateLast && c.N > 0 {
		for i := 0; i < c.N-1; i++ {
			g.Del(i, c.N-1)
		}
	}
	return g
}

var targetSizes = []int{0, 1, 2, 3, 4, 5, 7, 8, 9, 15, 16, 17, 31, 32, 33, 62, 63, 64, 65, 100}

func genCodecCase(t *rapid.T) codecCase {
	c := codecCase{Seed: rapid.Uint64().Draw(t, "seed"), Rep: rapid.SampledFrom(repNames).Draw(t, "rep"), Extra: [][2]int{}}
	switch rapid.IntRange(0, 9).Draw(t, "sizekind") {
	case 0, 1, 2:
		c.N = rapid.IntRange(0, 12).Draw(t, "n")
	case 3:
		c.N = rapid.IntRange(0, 130).Draw(t, "anyn") // every size up to beyond the one-byte size field
	case 9:
		c.N = rapid.SampledFrom([]int{128, 200, 300}).Draw(t, "bign")
		if !Thorough {
			c.N = 128
		}
	default:
		c.N = rapid.SampledFrom(targetSizes).Draw(t, "n")
	}
	c.Dens = rapid.SampledFrom([]int{0, 0, 1, 1, 4, 8}).Draw(t, "dens")
	if c.N >= 2 {
		for k := rapid.SampledFrom([]int{0, 0, 1, 2, 3}).Draw(t, "extra"); k > 0; k-- {
			i := rapid.IntRange(0, c.N-1).Draw(t, "ei")
			j := rapid.IntRange(0, c.N-1).Draw(t, "ej")
			if rapid.IntRange(0, 3).Draw(t, "penultimate") == 0 && c.N >= 3 {
				j = c.N - 2 // an edge at vertex n-2 (padding rule 1 needs it)
			}
			c.Extra = append(c.Extra, [2]int{i, j})
		}
	}
	c.IsolateLast = rapid.IntRange(0, 2).Draw(t, "isolatelast") == 0
	return c
}

func allowedBytes(s string, first byte) error {
	b := []byte(s)
	if first != 0 {
		if len(b) == 0 || b[0] != first {
			return fmt.Errorf("does not start with %q", first)
		}
		b = b[1:]
	}
	for i, c := range b {
		if c < 63 || c > 126 {
			return fmt.Errorf("byte %d at position %d is outside 63..126", c, i)
		}
	}
	return nil
}

func checkGraph6(g *oracle.G, in graph.Graph, rec *Rec) error {
	var enc string
	if p := try(func() { enc = graph.Graph6Encode(in) }); p != nil {
		return fmt.Errorf("Graph6Encode panicked (n=%d m=%d): %v", g.N, g.M(), p)
	}
	want := oracle.RefGraph6(g)
	if enc != want {
		return fmt.Errorf("Graph6Encode (n=%d, m=%d) = %q, the format prescribes %q", g.N, g.M(), clip(enc, 80), clip(want, 80))
	}
	if err := allowedBytes(enc, 0); err != nil {
		return fmt.Errorf("Graph6Encode output: %v", err)
	}
	for _, s := range []string{enc, ">>graph6<<" + enc} {
		var d *graph.DenseGraph
		var err error
		if p := try(func() { d, err = graph.Graph6Decode(s) }); p != nil {
			return fmt.Errorf("Graph6Decode(%q) panicked: %v", clip(s, 80), p)
		}
		if err != nil {
			return fmt.Errorf("Graph6Decode(%q) failed: %v", clip(s, 80), err)
		}
		if err := sameAs(fmt.Sprintf("Graph6Decode(%q)", clip(s, 60)), d, g); err != nil {
			return err
		}
	}
	switch {
	case g.N <= 62:
		rec.Label("g6-header-1")
	default:
		rec.Label("g6-header-4")
	}
	return nil
}

func checkSparse6(g *oracle.G, in graph.Graph, rec *Rec) error {
	var enc string
	if p := try(func() { enc = graph.Sparse6Encode(in) }); p != nil {
		return fmt.Errorf("Sparse6Encode panicked (n=%d m=%d): %v", g.N, g.M(), p)
	}
	if err := allowedBytes(enc, ':'); err != nil {
		return fmt.Errorf("Sparse6Encode output %q: %v", clip(enc, 80), err)
	}
	// what the string means according to the format definition
	n, edges, err := oracle.RefSparse6Decode(enc)
	if err != nil {
		return fmt.Errorf("Sparse6Encode output %q is not valid sparse6: %v", clip(enc, 80), err)
	}
	dec := oracle.New(n)
	for _, e := range edges {
		if e.U == e.V {
			return fmt.Errorf("Sparse6Encode output %q (n=%d) encodes the loop %d-%d", clip(enc, 80), g.N, e.U, e.V)
		}
		if dec.Has(e.U, e.V) {
			return fmt.Errorf("Sparse6Encode output %q (n=%d) encodes the edge %d-%d twice", clip(enc, 80), g.N, e.U, e.V)
		}
		dec.Add(e.U, e.V)
	}
	if !dec.Equal(g) {
		return fmt.Errorf("Sparse6Encode output %q decodes (by the format definition) to n=%d %v, the graph is n=%d %v", clip(enc, 80), dec.N, clipEdges(dec), g.N, clipEdges(g))
	}
	want := oracle.RefSparse6(g)
	if enc != want {
		return fmt.Errorf("Sparse6Encode (n=%d, edges %v) = %q but nauty's ntos6 / formats.txt give %q", g.N, clipEdges(g), clip(enc, 80), clip(want, 80))
	}
	for _, s := range []string{enc, ">>sparse6<<" + enc} {
		var d *graph.SparseGraph
		var derr error
		if p := try(func() { d, derr = graph.Sparse6Decode(s) }); p != nil {
			return fmt.Errorf("Sparse6Decode(%q) panicked: %v (n=%d edges %v)", clip(s, 80), p, g.N, clipEdges(g))
		}
		if derr != nil {
			return fmt.Errorf("Sparse6Decode(%q) failed: %v", clip(s, 80), derr)
		}
		if err := sameAs(fmt.Sprintf("Sparse6Decode(%q)", clip(s, 60)), d, g); err != nil {
			return err
		}
	}
	k := 0
	for x := g.N - 1; x > 0; x >>= 1 {
		k++
	}
	if g.N >= 2 && g.N == 1<<uint(k) && g.N >= 3 && g.Deg(g.N-1) == 0 && g.Deg(g.N-2) > 0 {
		rec.Label("s6-padding-rule-candidate")
	}
	if (len(enc)-1)%1 == 0 && g.M() > 0 {
		bitsUsed := 0
		last := 0
		for j := 0; j < g.N; j++ {
			for i := 0; i < j; i++ {
				if g.A[i][j] {
					if j == last {
						bitsUsed += 1 + k
					} else if j == last+1 {
						bitsUsed += 1 + k
						last = j
					} else {
						bitsUsed += 2 * (1 + k)
						last = j
					}
				}
			}
		}
		if bitsUsed%6 == 0 {
			rec.Label("s6-ends-on-6bit-boundary")
		}
	}
	return nil
}

func checkMulticode(g *oracle.G, in graph.Graph, rec *Rec) error {
	if g.N > 255 {
		return nil
	}
	var enc []byte
	if p := try(func() { enc = graph.MulticodeEncode(in) }); p != nil {
		return fmt.Errorf("MulticodeEncode panicked (n=%d): %v", g.N, p)
	}
	if want := oracle.RefMulticode(g); !bytes.Equal(enc, want) {
		return fmt.Errorf("MulticodeEncode (n=%d edges %v) = %v want %v", g.N, clipEdges(g), clipBytes(enc), clipBytes(want))
	}
	var d *graph.DenseGraph
	if p := try(func() { d = graph.MulticodeDecode(append([]byte{}, enc...)) }); p != nil {
		return fmt.Errorf("MulticodeDecode(%v) panicked: %v", clipBytes(enc), p)
	}
	// a record obtained earlier stays what it was when other graphs are encoded afterwards (records are collected
	// and concatenated into one stream)
	keep := append([]byte{}, enc...)
	for _, other := range []*oracle.G{mPath(3), mComplete(4), oracle.New(2)} {
		if o := graph.MulticodeEncode(denseOf(other)); !bytes.Equal(o, oracle.RefMulticode(other)) {
			return fmt.Errorf("MulticodeEncode of a small fixed graph = %v", clipBytes(o))
		}
	}
	if !bytes.Equal(enc, keep) {
		return fmt.Errorf("the record %v returned by MulticodeEncode changed to %v when other graphs were encoded afterwards", clipBytes(keep), clipBytes(enc))
	}
	return sameAs(fmt.Sprintf("MulticodeDecode(%v)", clipBytes(enc)), d, g)
}

func clipBytes(b []byte) string {
	if len(b) > 40 {
		return fmt.Sprint(b[:40]) + "..."
	}
	return fmt.Sprint(b)
}

func checkCodecCase(c codecCase, rec *Rec) error {
	g := c.Model()
	in := repOf(g, c.Rep)
	rec.Label("rep-" + c.Rep)
	rec.Labelf("n-%d", bucket(g.N))
	rec.NonTrivial(g.N >= 2 && g.M() > 0)
	if err := checkGraph6(g, in, rec); err != nil {
		return err
	}
	if err := checkSparse6(g, in, rec); err != nil {
		return err
	}
	if err := checkMulticode(g, in, rec); err != nil {
		return err
	}
	// encoding is read-only: the same value encodes the same way again and is unchanged
	if a, b := graph.Graph6Encode(in), graph.Sparse6Encode(in); a != oracle.RefGraph6(g) || b != oracle.RefSparse6(g) {
		return fmt.Errorf("encoding the same %s value a second time gives different strings (n=%d)", c.Rep, g.N)
	}
	return sameAs(fmt.Sprintf("the %s graph after being encoded", c.Rep), in, g)
}

// ---- all labelled graphs on few vertices ------------------------------------------------------

type labelledCase struct {
	N    int
	Mask uint64 // bit idx of the packed triangle 01,02,12,03,...
}

func (c labelledCase) Model() *oracle.G {
	g := oracle.New(c.N)
	idx := 0
	for j := 1; j < c.N; j++ {
		for i := 0; i < j; i++ {
			if c.Mask>>uint(idx)&1 == 1 {
				g.Add(i, j)
			}
			idx++
		}
	}
	return g
}

func enumLabelled(maxN int) func(yield func(labelledCase) bool) {
	return func(yield func(labelledCase) bool) {
		for n := 0; n <= maxN; n++ {
			m := n * (n - 1) / 2
			for mask := uint64(0); mask < 1<<uint(m); mask++ {
				if int(mask%uint64(NShards)) != Shard {
					continue
				}
				if !yield(labelledCase{n, mask}) {
					return
				}
			}
		}
	}
}

func checkLabelledCodecs(c labelledCase, rec *Rec) error {
	g := c.Model()
	rec.NonTrivial(g.N >= 2 && g.M() > 0)
	for _, rep := range []string{"dense", "sparse"} {
		in := repOf(g, rep)
		if err := checkGraph6(g, in, rec); err != nil {
			return err
		}
		if err := checkSparse6(g, in, rec); err != nil {
			return err
		}
		if err := checkMulticode(g, in, rec); err != nil {
			return err
		}
	}
	return nil
}

// ---- sparse6 with the long size fields ---------------------------------------------------------

type bigSparseCase struct {
	N int
	E [][2]int
}

func genBigSparseCase(t *rapid.T) bigSparseCase {
	n := rapid.SampledFrom([]int{63, 64, 4095, 4096, 4097, 258047, 258048, 262144, 300000}).Draw(t, "n")
	c := bigSparseCase{N: n, E: [][2]int{}}
	for k := rapid.IntRange(0, 12).Draw(t, "m"); k > 0; k-- {
		var i, j int
		switch rapid.IntRange(0, 3).Draw(t, "where") {
		case 0:
			i, j = rapid.IntRange(0, n-1).Draw(t, "i"), rapid.IntRange(0, n-1).Draw(t, "j")
		case 1:
			i, j = rapid.IntRange(0, 5).Draw(t, "i"), rapid.IntRange(0, 5).Draw(t, "j")
		case 2:
			i, j = n-1-rapid.IntRange(0, 3).Draw(t, "i"), n-1-rapid.IntRange(0, 5).Draw(t, "j")
		default:
			i = rapid.IntRange(0, n-1).Draw(t, "i")
			j = i + rapid.IntRange(-2, 2).Draw(t, "d")
		}
		if i != j && i >= 0 && j >= 0 && i < n && j < n {
			c.E = append(c.E, [2]int{i, j})
		}
	}
	return c
}

func checkBigSparseCase(c bigSparseCase, rec *Rec) error {
	n := c.N
	nb := map[int]map[int]bool{}
	add := func(a, b int) {
		if nb[a] == nil {
			nb[a] = map[int]bool{}
		}
		nb[a][b] = true
	}
	for _, e := range c.E {
		add(e[0], e[1])
		add(e[1], e[0])
	}
	lists := make([]sortints.SortedInts, n)
	m := 0
	for v := range lists {
		lists[v] = sortints.SortedInts{}
	}
	for v, s := range nb {
		lists[v] = sortints.SortedInts(sortedKeys(s))
		m += len(s)
	}
	m /= 2
	deg := make([]int, n)
	for v := range deg {
		deg[v] = len(lists[v])
	}
	g := &graph.SparseGraph{NumberOfVertices: n, NumberOfEdges: m, Neighbourhoods: lists, DegreeSequence: deg}
	var enc string
	if p := try(func() { enc = graph.Sparse6Encode(g) }); p != nil {
		return fmt.Errorf("Sparse6Encode panicked (n=%d edges %v): %v", n, c.E, p)
	}
	want := oracle.RefSparse6FromLists(n, func(j int) []int {
		var r []int
		for _, i := range lists[j] {
			if i < j {
				r = append(r, i)
			}
		}
		return r
	})
	if enc != want {
		return fmt.Errorf("Sparse6Encode (n=%d edges %v) = %q, the format prescribes %q", n, c.E, clip(enc, 90), clip(want, 90))
	}
	var d *graph.SparseGraph
	var err error
	if p := try(func() { d, err = graph.Sparse6Decode(enc) }); p != nil {
		return fmt.Errorf("Sparse6Decode(%q) panicked: %v", clip(enc, 90), p)
	}
	if err != nil {
		return fmt.Errorf("Sparse6Decode(%q) failed: %v", clip(enc, 90), err)
	}
	if d.N() != n || d.M() != m {
		return fmt.Errorf("Sparse6Decode(%q): N=%d M=%d want %d %d", clip(enc, 90), d.N(), d.M(), n, m)
	}
	degs := d.Degrees()
	sum := 0
	for v, dv := range degs {
		sum += dv
		if dv != len(lists[v]) {
			return fmt.Errorf("Sparse6Decode(%q): degree of %d is %d want %d", clip(enc, 90), v, dv, len(lists[v]))
		}
	}
	for v := range nb {
		if !eqInts(d.Neighbours(v), lists[v]) {
			return fmt.Errorf("Sparse6Decode(%q): Neighbours(%d) = %v want %v", clip(enc, 90), v, d.Neighbours(v), lists[v])
		}
	}
	switch {
	case n <= 62:
		rec.Label("s6-header-1")
	case n <= 258047:
		rec.Label("s6-header-4")
	default:
		rec.Label("s6-header-8")
	}
	rec.NonTrivial(m > 0)
	return nil
}

// ---- Multicode concatenations -----------------------------------------------------------------

type multiCase struct{ Gs []GSpec }

func genMultiCase(t *rapid.T) multiCase {
	k := rapid.IntRange(0, 6).Draw(t, "k")
	c := multiCase{Gs: []GSpec{}}
	for i := 0; i < k; i++ {
		n := rapid.SampledFrom([]int{0, 1, 1, 2, 3, 4, 5, 6}).Draw(t, "n")
		c.Gs = append(c.Gs, specOf(genGnp(t, n)))
	}
	return c
}

func checkMultiCase(c multiCase, rec *Rec) error {
	var stream []byte
	small := false
	for _, s := range c.Gs {
		stream = append(stream, oracle.RefMulticode(s.Model())...)
		if s.N <= 1 {
			small = true
		}
	}
	rec.NonTrivial(len(c.Gs) >= 2)
	rec.Labelf("has-record-with-n<=1:%v", small)
	var out []*graph.DenseGraph
	if p := try(func() { out = graph.MulticodeDecodeMultiple(append([]byte{}, stream...)) }); p != nil {
		return fmt.Errorf("MulticodeDecodeMultiple(%v) panicked: %v", clipBytes(stream), p)
	}
	if len(out) != len(c.Gs) {
		return fmt.Errorf("MulticodeDecodeMultiple(%v) returned %d graphs, the stream holds %d records", clipBytes(stream), len(out), len(c.Gs))
	}
	for i, s := range c.Gs {
		if err := sameAs(fmt.Sprintf("MulticodeDecodeMultiple(%v)[%d]", clipBytes(stream), i), out[i], s.Model()); err != nil {
			return err
		}
	}
	// the decoded graphs are independent values: growing and editing each one in turn leaves all the others as decoded
	models := make([]*oracle.G, len(out))
	for i, s := range c.Gs {
		models[i] = s.Model()
	}
	for i := range out {
		nb := []int{}
		for v := 0; v < out[i].N(); v += 2 {
			nb = append(nb, v)
		}
		if p := try(func() { out[i].AddVertex(nb); out[i].AddVertex([]int{out[i].N() - 1}) }); p != nil {
			return fmt.Errorf("AddVertex on graph %d of MulticodeDecodeMultiple(%v) panicked: %v", i, clipBytes(stream), p)
		}
		models[i].AddVertex(nb)
		models[i].AddVertex([]int{models[i].N - 1})
		for j := range out {
			if err := sameAs(fmt.Sprintf("graph %d of MulticodeDecodeMultiple(%v) after graph %d was grown by two vertices", j, clipBytes(stream), i), out[j], models[j]); err != nil {
				return err
			}
		}
	}
	return nil
}

// decodedIsOwn: the graph a decoder returns belongs to the caller. A second decoding of the same string is taken, the
// second result is grown and edited, and the FIRST result must still be what it was; a third decoding must again give
// the original graph.
func decodedIsOwn(format, s string, first graph.Graph) error {
	decode := func() (graph.EditableGraph, error) {
		if format == "graph6" {
			return graph.Graph6Decode(s)
		}
		return graph.Sparse6Decode(s)
	}
	before, err := wellFormed(fmt.Sprintf("%sDecode(%q)", format, s), first)
	if err != nil {
		return err
	}
	var second graph.EditableGraph
	var derr error
	if p := try(func() {
		second, derr = decode()
		if derr == nil {
			second.AddVertex([]int{})
			second.AddVertex([]int{0})
			second.AddEdge(0, 1)
			second.RemoveVertex(0)
		}
	}); p != nil || derr != nil {
		return fmt.Errorf("%sDecode(%q): a second decoding followed by edits of its result failed: %v %v", format, s, p, derr)
	}
	if err := sameAs(fmt.Sprintf("the first result of %sDecode(%q) after a second result was edited", format, s), first, before); err != nil {
		return err
	}
	var third graph.EditableGraph
	if p := try(func() { third, derr = decode() }); p != nil || derr != nil {
		return fmt.Errorf("%sDecode(%q): a third decoding failed: %v %v", format, s, p, derr)
	}
	return sameAs(fmt.Sprintf("%sDecode(%q) after the result of an earlier decoding was edited", format, s), third, before)
}

// ---- Pruefer ----------------------------------------------------------------------------------

type pruferCase struct {
	Code []int // entries in 0..len+1
	Perm []int // relabelling applied to the decoded tree before re-encoding (tree direction)
}

func genPruferCase(t *rapid.T) pruferCase {
	n := rapid.IntRange(2, sz(12, 40)).Draw(t, "n")
	c := pruferCase{Code: make([]int, n-2)}
	star := rapid.IntRange(0, 5).Draw(t, "shape")
	for i := range c.Code {
		switch star {
		case 0:
			c.Code[i] = c.Code[0] // star-like
		default:
			c.Code[i] = rapid.IntRange(0, n-1).Draw(t, "c")
		}
	}
	c.Perm = genPerm(t, n, "perm")
	return c
}

func checkPruferCase(c pruferCase, rec *Rec) error {
	n := len(c.Code) + 2
	rec.NonTrivial(n >= 4)
	ref := oracle.RefPruferDecode(c.Code)
	code := append([]int{}, c.Code...)
	var tree *graph.DenseGraph
	if p := try(func() { tree = graph.PruferDecode(code) }); p != nil {
		return fmt.Errorf("PruferDecode(%v) panicked: %v", c.Code, p)
	}
	if err := sameAs(fmt.Sprintf("PruferDecode(%v)", c.Code), tree, ref); err != nil {
		return err
	}
	// encode inverts decode, on every representation
	for name, in := range reps(ref) {
		for round := 1; round <= 2; round++ { // twice on the same value: encoding must not consume its argument
			var back []int
			if p := try(func() { back = graph.PruferEncode(in) }); p != nil {
				return fmt.Errorf("PruferEncode(%s tree of %v) panicked (call #%d): %v", name, c.Code, round, p)
			}
			if !eqInts(back, c.Code) {
				return fmt.Errorf("PruferEncode(PruferDecode(%v)) = %v (%s representation, call #%d on the same value)", c.Code, back, name, round)
			}
		}
		if err := sameAs(fmt.Sprintf("the %s tree after PruferEncode", name), in, ref); err != nil {
			return err
		}
	}
	// tree direction: an arbitrary labelled tree (the relabelled one) -> code -> the same tree
	tr := ref.Induced(c.Perm)
	var code2 []int
	if p := try(func() { code2 = graph.PruferEncode(denseOf(tr)) }); p != nil {
		return fmt.Errorf("PruferEncode(tree %v) panicked: %v", clipEdges(tr), p)
	}
	if want := oracle.RefPruferEncode(tr); !eqInts(code2, want) {
		return fmt.Errorf("PruferEncode(tree %v) = %v want %v", clipEdges(tr), code2, want)
	}
	if len(code2) != n-2 {
		return fmt.Errorf("PruferEncode(tree on %d vertices) has length %d", n, len(code2))
	}
	var tr2 *graph.DenseGraph
	if p := try(func() { tr2 = graph.PruferDecode(append([]int{}, code2...)) }); p != nil {
		return fmt.Errorf("PruferDecode(%v) panicked: %v", code2, p)
	}
	return sameAs(fmt.Sprintf("PruferDecode(PruferEncode(tree %v))", clipEdges(tr)), tr2, tr)
}

func enumPruferCodes(yield func(pruferCase) bool) {
	maxN := sz(6, 7)
	for n := 2; n <= maxN; n++ {
		code := make([]int, n-2)
		idp := make([]int, n)
		for i := range idp {
			idp[i] = i
		}
		idx := 0
		for {
			if idx%NShards == Shard {
				if !yield(pruferCase{Code: append([]int{}, code...), Perm: idp}) {
					return
				}
			}
			idx++
			i := len(code) - 1
			for i >= 0 && code[i] == n-1 {
				code[i] = 0
				i--
			}
			if i < 0 {
				break
			}
			code[i]++
		}
	}
}

// ---- C08 --------------------------------------------------------------------------------------

type decodeCase struct {
	Format string // graph6 or sparse6
	S      word
}

var hostile = []string{"", "~", "~~", "~~~", "~~~~~~~", "~~~~~~~~", ":", ":~", ":~~", ":~~~", ":A", ":An", ":@", ":?", ":B", ":Bo", ":Fa@x^",
	">>graph6<<", ">>sparse6<<", ">>graph6<<~", ">>sparse6<<:", ">>sparse6<<:~", "~??", "~?@", "~?@?", "~~?????", ":~?@", ":~?@~", ":~??~~~~",
	"?", "@", "A", "A_", "A?", "B", "Bw", "C~", "DQc", "D", "DQ", "~?@G", ":~o??", ":_", ":`", ":~~?????@", "~o??", ":C~~~~", ":G~~~~~~", ":Gw", ":GwN", ":GwF",
	"\x00", ":\x00", "D\x7f\x7f", ":D\x3e", "DQc\n", ":Fa@x^\n", " DQc", ">>graph6<<DQc", ">>sparse6<<:Fa@x^", ">>graph6<<:Fa@x^", ">>sparse6<<DQc"}

func genDecodeCase(t *rapid.T) decodeCase {
	c := decodeCase{Format: rapid.SampledFrom([]string{"graph6", "sparse6"}).Draw(t, "format")}
	var s []byte
	switch rapid.IntRange(0, 5).Draw(t, "source") {
	case 0:
		s = []byte(rapid.SampledFrom(hostile).Draw(t, "hostile"))
	case 1:
		n := rapid.IntRange(0, 24).Draw(t, "len")
		s = make([]byte, n)
		for i := range s {
			s[i] = rapid.SampledFrom([]byte{'~', '?', '@', ':', 'A', '_', '^', 'o', 'w', '{', '}', 'B', 'N'}).Draw(t, "ch")
		}
		if c.Format == "sparse6" && rapid.IntRange(0, 3).Draw(t, "colon") != 0 {
			s = append([]byte{':'}, s...)
		}
	default:
		// a valid encoding of a generated graph, then an edit script
		g := genGnp(t, rapid.SampledFrom([]int{0, 1, 2, 3, 4, 5, 7, 8, 9, 15, 16, 17, 31, 32, 33, 62, 63, 64, 70}).Draw(t, "n"))
		if rapid.Bool().Draw(t, "fromsparse6") {
			s = []byte(oracle.RefSparse6(g))
		} else {
			s = []byte(oracle.RefGraph6(g))
		}
		if rapid.IntRange(0, 4).Draw(t, "hdr") == 0 {
			s = append([]byte(rapid.SampledFrom([]string{">>graph6<<", ">>sparse6<<"}).Draw(t, "which")), s...)
		}
		for k := rapid.IntRange(0, 4).Draw(t, "edits"); k > 0; k-- {
			pos := 0
			if len(s) > 0 {
				pos = rapid.IntRange(0, len(s)-1).Draw(t, "pos")
			}
			switch rapid.IntRange(0, 6).Draw(t, "edit") {
			case 0:
				s = s[:pos] // truncate
			case 1:
				if len(s) > 0 {
					s = append(s[:pos:pos], s[pos+1:]...) // delete
				}
			case 2:
				b := rapid.SampledFrom([]byte{'~', '?', 63, 126, 62, 127, 0, 255, ':', 'A'}).Draw(t, "ins")
				s = append(s[:pos:pos], append([]byte{b}, s[pos:]...)...) // insert
			case 3:
				if len(s) > 0 {
					s[pos] = rapid.Byte().Draw(t, "rep") // replace, any byte
				}
			case 4:
				if len(s) > 0 {
					end := min(len(s), pos+rapid.IntRange(1, 6).Draw(t, "chunk"))
					s = append(s[:end:end], append(append([]byte{}, s[pos:end]...), s[end:]...)...) // duplicate a chunk
				}
			case 5:
				// overwrite the size field
				fld := rapid.SampledFrom([]string{"~", "~~", "?", "@", "~?@", "~??", "~~?????", "~@??", "o"}).Draw(t, "size")
				at := 0
				if len(s) > 0 && s[0] == ':' {
					at = 1
				}
				s = append(append(append([]byte{}, s[:at]...), fld...), s[min(len(s), at+1):]...)
			case 6:
				s = append(s, rapid.SampledFrom([]byte{'~', '?', '^', 'N', 'F'}).Draw(t, "tail"))
			}
		}
	}
	c.S = word(s)
	return c
}

var subDecode *Sub

const maxDeclaredN = 4096

// declaredSize parses the header/size field the way the format definition says.
func declaredSize(format string, s []byte) (n int, ok bool) {
	if format == "graph6" {
		s = bytes.TrimPrefix(s, []byte(">>graph6<<"))
	} else {
		s = bytes.TrimPrefix(s, []byte(">>sparse6<<"))
		if len(s) == 0 || s[0] != ':' {
			return 0, false
		}
		s = s[1:]
	}
	n, _, err := oracle.ParseSizeField(s)
	if err != nil {
		return 0, false
	}
	return n, true
}

func checkDecodeCase(c decodeCase, rec *Rec) error {
	s := string(c.S)
	n, sized := declaredSize(c.Format, []byte(s))
	if sized && n > maxDeclaredN {
		rec.Label("discarded-declared-n-too-large")
		return nil
	}
	var gr graph.Graph
	var derr error
	call := func() {
		if c.Format == "graph6" {
			var d *graph.DenseGraph
			d, derr = graph.Graph6Decode(s)
			gr = d
		} else {
			var d *graph.SparseGraph
			d, derr = graph.Sparse6Decode(s)
			gr = d
		}
	}
	finished, p := withDeadline(20*time.Second, call)
	if !finished {
		raw, _ := jsonMarshal(c)
		hang(subDecode, raw, fmt.Sprintf("%s decode of %q still running after 20s", c.Format, s))
	}
	if p != nil {
		return fmt.Errorf("%sDecode(%q) panicked: %v", c.Format, s, p)
	}
	valid := false
	if derr == nil {
		rec.Label("outcome-ok")
	} else {
		rec.Label("outcome-error")
	}
	if !sized {
		// the empty graph6 string is documented to decode as the empty graph
		if c.Format == "graph6" && strings.TrimPrefix(s, ">>graph6<<") == "" {
			if derr != nil || gr.N() != 0 {
				return fmt.Errorf("Graph6Decode(%q): documented to give the empty graph, got err=%v", s, derr)
			}
			return decodedIsOwn(c.Format, s, gr)
		}
		if derr == nil {
			return fmt.Errorf("%sDecode(%q) succeeded (n=%d) although the size field is missing, incomplete or contains bytes outside 63..126", c.Format, s, gr.N())
		}
		rec.NonTrivial(len(s) >= 2)
		return nil
	}
	if derr != nil {
		rec.NonTrivial(len(s) >= 2)
		return nil
	}
	if gr.N() != n {
		return fmt.Errorf("%sDecode(%q) returned a graph on %d vertices, the string declares %d", c.Format, s, gr.N(), n)
	}
	var model *oracle.G
	if n <= 200 {
		var err error
		model, err = wellFormed(fmt.Sprintf("%sDecode(%q)", c.Format, s), gr)
		if err != nil {
			return err
		}
	} else {
		// light well-formedness for big n: degrees, M and neighbour lists agree
		sum := 0
		if p := try(func() {
			degs := gr.Degrees()
			for v := 0; v < n; v++ {
				nb := gr.Neighbours(v)
				if len(nb) != degs[v] {
					panic(fmt.Sprintf("degree of %d is %d but it has %d neighbours", v, degs[v], len(nb)))
				}
				for i, u := range nb {
					if u < 0 || u >= n || u == v || (i > 0 && nb[i-1] >= u) || !gr.IsEdge(u, v) || !gr.IsEdge(v, u) {
						panic(fmt.Sprintf("bad neighbour list of %d: %v", v, nb))
					}
				}
				sum += len(nb)
			}
		}); p != nil {
			return fmt.Errorf("%sDecode(%q): result not well formed: %v", c.Format, s, p)
		}
		if sum != 2*gr.M() {
			return fmt.Errorf("%sDecode(%q): M()=%d but degree sum %d", c.Format, s, gr.M(), sum)
		}
	}
	if n <= 40 {
		if err := decodedIsOwn(c.Format, s, gr); err != nil {
			return err
		}
	}
	// re-encode and decode again: same graph
	var again graph.Graph
	var err2 error
	if p := try(func() {
		if c.Format == "graph6" {
			again, err2 = graph.Graph6Decode(graph.Graph6Encode(gr))
		} else {
			again, err2 = graph.Sparse6Decode(graph.Sparse6Encode(gr))
		}
	}); p != nil {
		return fmt.Errorf("%s: re-encoding the result of decoding %q panicked: %v", c.Format, s, p)
	}
	if err2 != nil {
		return fmt.Errorf("%s: decoding the re-encoded result of %q failed: %v", c.Format, s, err2)
	}
	if model != nil {
		if err := sameAs(fmt.Sprintf("re-decoded result of %sDecode(%q)", c.Format, s), again, model); err != nil {
			return err
		}
		want := oracle.RefGraph6(model)
		if c.Format == "sparse6" {
			want = oracle.RefSparse6(model)
		}
		valid = want == strings.TrimPrefix(strings.TrimPrefix(s, ">>graph6<<"), ">>sparse6<<")
	} else if !graph.Equal(gr, again) {
		return fmt.Errorf("%s: re-encoding and decoding the result of %q gives a different graph", c.Format, s)
	}
	rec.Labelf("canonical-encoding-%v", valid)
	rec.NonTrivial(!valid && len(s) >= 2)
	return nil
}

func enumHostile(yield func(decodeCase) bool) {
	for _, f := range []string{"graph6", "sparse6"} {
		for _, s := range hostile {
			if !yield(decodeCase{Format: f, S: word(s)}) {
				return
			}
		}
		// every string of length <= 3 over a small hostile alphabet, with and without ':'
		alpha := []byte{'~', '?', '@', 'A', 'B', '^', ':', 62, 127}
		var rec func(cur []byte) bool
		rec = func(cur []byte) bool {
			if !yield(decodeCase{Format: f, S: word(cur)}) || !yield(decodeCase{Format: f, S: word(":" + string(cur))}) {
				return false
			}
			if len(cur) == 3 {
				return true
			}
			for _, a := range alpha {
				if !rec(append(cur[:len(cur):len(cur)], a)) {
					return false
				}
			}
			return true
		}
		if !rec(nil) {
			return
		}
	}
}

func init() {
	RegisterRapid("C07_codecs",
		"rapid: graph = (n, hash-defined edge set of density 0,1/8,1/2,1 from a seed, up to 3 toggled edges biased to vertex n-2, optionally vertex n-1 isolated) with n from 0..12 or the targets {0,1,2,3,4,5,7,8,9,15,16,17,31,32,33,62,63,64,65,100,128(,200,300)}, input held as dense / sparse / views. graph6: Graph6Encode equals the reference encoder byte for byte, only bytes 63..126, Graph6Decode returns the graph with and without '>>graph6<<'. sparse6: the output is decoded by a literal transcription of the format definition that keeps loops and repeats (none allowed, result must be the graph), equals nauty's ntos6 transcription (both padding rules), and Sparse6Decode returns the graph with and without header. Multicode: equals the reference, decodes to the graph. Non-trivial: n >= 2 with an edge.",
		Budget{Checks: 2500, Shards: 1}, Budget{Checks: 30000, Shards: 16}, genCodecCase, checkCodecCase)
	RegisterEnum("C07_every_order",
		"enumeration: for EVERY n in 0..130 (thorough 0..300) five graphs (edgeless, one edge, path, hash-random of density 1/2, complete) from dense and sparse inputs through graph6, sparse6 and Multicode; same checks as C07_codecs. Complete over n for that range.",
		true, Budget{Shards: 1}, Budget{Shards: 8},
		func(yield func(codecCase) bool) {
			idx := 0
			for n := 0; n <= sz(130, 300); n++ {
				for kind := 0; kind < 5; kind++ {
					idx++
					if idx%NShards != Shard {
						continue
					}
					c := codecCase{N: n, Seed: uint64(n)*7 + Seed, Extra: [][2]int{}, Rep: []string{"dense", "sparse"}[(n+kind)%2]}
					switch kind {
					case 1:
						if n >= 2 {
							c.Extra = [][2]int{{0, n - 1}}
						}
					case 2:
						for i := 0; i+1 < n; i++ {
							c.Extra = append(c.Extra, [2]int{i, i + 1})
						}
					case 3:
						c.Dens = 4
					case 4:
						c.Dens = 8
					}
					if !yield(c) {
						return
					}
				}
			}
		}, checkCodecCase)
	RegisterEnum("C07_all_labelled_small",
		"enumeration: EVERY labelled graph on n <= 5 (quick; 1+1+2+8+64+1024 = 1100 graphs) / n <= 6 (thorough; +32768) vertices through graph6, sparse6 and Multicode from the dense and sparse representations; same checks as C07_codecs. Complete for that range.",
		true, Budget{Shards: 1}, Budget{Shards: 8}, func(y func(labelledCase) bool) { enumLabelled(sz(5, 6))(y) }, checkLabelledCodecs)
	RegisterRapid("C07_sparse6_long_headers",
		"rapid: SparseGraphs with n in {63,64,4095,4096,4097,258047,258048,262144,300000} (1-, 4- and 8-byte size fields, k crossing powers of two) and <= 12 edges placed at random, among the first vertices, among the last vertices, or between near neighbours: Sparse6Encode equals the reference and Sparse6Decode restores N, M, degrees and neighbour lists. (The 8-byte graph6 size field would need a 33 GB triangle and is not exercised.) Non-trivial: at least one edge.",
		Budget{Checks: 60, Shards: 1}, Budget{Checks: 600, Shards: 8}, genBigSparseCase, checkBigSparseCase)
	RegisterRapid("C07_multicode_concat",
		"rapid: concatenations of 0..6 reference Multicode records of graphs on 0..6 vertices (records for n = 0 and n = 1 included): MulticodeDecodeMultiple returns exactly the graphs, in order. Non-trivial: >= 2 records.",
		Budget{Checks: 3000, Shards: 1}, Budget{Checks: 200000, Shards: 4}, genMultiCase, checkMultiCase)
	RegisterRapid("C07_prufer",
		"rapid: codes in {0..n-1}^(n-2) for n in 2..12 (thorough 40), star-like and random: PruferDecode equals the reference tree, PruferEncode inverts it on every representation; the tree relabelled by a random permutation is encoded (equals the reference code, length n-2) and decoded back to itself. Non-trivial: n >= 4.",
		Budget{Checks: 2000, Shards: 1}, Budget{Checks: 100000, Shards: 8}, genPruferCase, checkPruferCase)
	RegisterEnum("C07_prufer_all_codes",
		"enumeration: EVERY Pruefer code for n = 2..6 (quick; 1+3+16+125+1296) / 2..7 (thorough; +16807): decode/encode are mutually inverse and agree with the reference, so the map is a bijection onto the n^(n-2) labelled trees. Complete for that range.",
		true, Budget{Shards: 1}, Budget{Shards: 4}, enumPruferCodes, checkPruferCase)
	subDecode = RegisterRapid("C08_decoders_total",
		"rapid: byte strings for Graph6Decode / Sparse6Decode from (a) a dictionary of hostile constants, (b) strings over {~ ? @ : A _ ^ o w { } B N}, (c) valid encodings of random graphs (n up to 70, either format, optional header of either format) under 0..4 edits: truncate, delete, insert, replace by any byte, duplicate a chunk, overwrite the size field, append. Strings declaring n > 4096 are discarded and counted. Verdict: returns within 20 s without panicking; error or graph; an unreadable size field must give an error (except the documented empty graph6 string); on success N() = declared n, the graph is well formed, and re-encoding + decoding gives the same graph. Non-trivial: length >= 2 and not the canonical encoding of the returned graph.",
		Budget{Checks: 8000, Shards: 1}, Budget{Checks: 400000, Shards: 16}, genDecodeCase, checkDecodeCase)
	RegisterEnum("C08_hostile_strings",
		"enumeration: the hostile dictionary plus EVERY string of length <= 3 over {~ ? @ A B ^ : 0x3e 0x7f}, each also prefixed with ':', through both decoders; same verdict as C08_decoders_total.",
		true, Budget{Shards: 1}, Budget{Shards: 1}, enumHostile, checkDecodeCase)
}
