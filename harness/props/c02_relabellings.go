package props

import (
	"fmt"
	"math/big"
	"sync"

	"github.com/Tom-Johnston/mamba/disjoint"
	"github.com/Tom-Johnston/mamba/graph"
	"pgregory.net/rapid"
	"verifharness/oracle"
)

// C02 on graphs with FEW, LARGE orbits under MANY relabellings. Whether the orbit bookkeeping goes wrong depends on the
// order in which automorphisms are found, i.e. on the labelling; the oracle is computed once per base graph and
// transported along each relabelling, so hundreds of relabellings per graph are affordable.

type orbitFamilyCase struct {
	Family string
	A, B   int
	Compl  bool
	Seed   uint64
	R      int
}

func (c orbitFamilyCase) base() *oracle.G {
	var g *oracle.G
	switch c.Family {
	case "genpetersen":
		g = mGenPetersen(c.A, c.B)
	case "sun": // cycle with a pendant vertex at every vertex: two orbits of size A
		g = oracle.New(2 * c.A)
		for i := 0; i < c.A; i++ {
			g.Add(i, (i+1)%c.A)
			g.Add(i, c.A+i)
		}
	case "bipartite":
		g = mCompleteMultipartite([]int{c.A, c.B})
	case "wheel":
		g = mWheel(c.A)
	case "prism-pendants": // C_A x K2 with a pendant at every vertex of one rim
		g = oracle.New(3 * c.A)
		for i := 0; i < c.A; i++ {
			g.Add(i, (i+1)%c.A)
			g.Add(c.A+i, c.A+(i+1)%c.A)
			g.Add(i, c.A+i)
			g.Add(i, 2*c.A+i)
		}
	case "two-cycles":
		g = oracle.New(c.A + c.B)
		for i := 0; i < c.A; i++ {
			g.Add(i, (i+1)%c.A)
		}
		for i := 0; i < c.B; i++ {
			g.Add(c.A+i, c.A+(i+1)%c.B)
		}
	case "two-genpetersen": // two copies of GP(A,B) plus one cycle of length A
		one := mGenPetersen(c.A, c.B)
		g = oracle.New(2*one.N + c.A)
		for _, e := range one.Edges() {
			g.Add(e[0], e[1])
			g.Add(one.N+e[0], one.N+e[1])
		}
		for i := 0; i < c.A; i++ {
			g.Add(2*one.N+i, 2*one.N+(i+1)%c.A)
		}
	case "rook":
		g = mRook(c.A, c.B)
	case "circulant-cone": // circulant C_A(1,B) plus a vertex joined to every second vertex
		g0 := mCirculant(c.A, []int{1, c.B})
		g = oracle.New(c.A + 1)
		for _, e := range g0.Edges() {
			g.Add(e[0], e[1])
		}
		for i := 0; i < c.A; i += 2 {
			g.Add(c.A, i)
		}
	default:
		panic("unknown family " + c.Family)
	}
	if c.Compl {
		g = g.Complement()
	}
	return g
}

type orbitOracle struct {
	orbits []int
	order  *big.Int
}

var orbitOracleCache sync.Map

func genOrbitFamilyCase(t *rapid.T) orbitFamilyCase {
	c := orbitFamilyCase{Seed: rapid.Uint64().Draw(t, "seed"), R: sz(40, 150), Compl: rapid.IntRange(0, 4).Draw(t, "compl") == 0}
	c.Family = rapid.SampledFrom([]string{"genpetersen", "genpetersen", "genpetersen", "sun", "bipartite", "wheel", "prism-pendants", "two-cycles", "two-genpetersen", "rook", "circulant-cone"}).Draw(t, "family")
	big := rapid.IntRange(0, 4).Draw(t, "big") == 0 // more than 64 vertices
	switch c.Family {
	case "genpetersen":
		c.A = rapid.IntRange(5, sz(12, 16)).Draw(t, "n")
		if big {
			c.A = rapid.IntRange(33, sz(40, 48)).Draw(t, "bign")
		}
		c.B = rapid.IntRange(1, (c.A-1)/2).Draw(t, "k")
	case "two-genpetersen":
		c.A = rapid.IntRange(5, 8).Draw(t, "n")
		c.B = rapid.IntRange(1, (c.A-1)/2).Draw(t, "k")
	case "sun", "wheel":
		c.A = rapid.IntRange(4, sz(12, 16)).Draw(t, "n")
		if big {
			c.A = rapid.IntRange(33, 70).Draw(t, "bign")
		}
	case "prism-pendants":
		c.A = rapid.IntRange(3, sz(8, 11)).Draw(t, "n")
		if big {
			c.A = rapid.IntRange(22, 30).Draw(t, "bign")
		}
	case "bipartite", "rook":
		c.A = rapid.IntRange(2, 5).Draw(t, "a")
		c.B = rapid.IntRange(c.A+1, 7).Draw(t, "b")
		if c.Family == "bipartite" {
			c.B = rapid.IntRange(c.A+1, sz(12, 16)).Draw(t, "bb")
		}
	case "two-cycles":
		c.A = rapid.IntRange(3, 11).Draw(t, "a")
		c.B = rapid.IntRange(c.A+1, 13).Draw(t, "b")
		if big {
			c.A = rapid.IntRange(20, 40).Draw(t, "biga")
			c.B = rapid.IntRange(c.A+1, 50).Draw(t, "bigb")
		}
	case "circulant-cone":
		c.A = 2 * rapid.IntRange(4, sz(9, 12)).Draw(t, "half")
		if big {
			c.A = 2 * rapid.IntRange(32, 40).Draw(t, "bighalf")
		}
		c.B = rapid.IntRange(2, c.A/2-1).Draw(t, "d")
	}
	return c
}

func checkOrbitFamilyCase(c orbitFamilyCase, rec *Rec) error {
	g := c.base()
	key := fmt.Sprintf("%s/%d/%d/%v", c.Family, c.A, c.B, c.Compl)
	var oc orbitOracle
	if v, ok := orbitOracleCache.Load(key); ok {
		oc = v.(orbitOracle)
	} else {
		oc = orbitOracle{oracle.AutOrbits(g, nil), oracle.AutOrder(g, nil)}
		orbitOracleCache.Store(key, oc)
	}
	largest := 0
	cnt := map[int]int{}
	for _, o := range oc.orbits {
		cnt[o]++
		largest = max(largest, cnt[o])
	}
	rec.NonTrivial(largest >= 5)
	rec.Label("family-" + c.Family)
	rec.Labelf("orbits-%d", len(cnt))
	rng := newPrng(c.Seed, 77)
	n := g.N
	R := c.R
	if n > 64 {
		R = max(8, c.R/4)
		rec.Label("more-than-64-vertices")
	}
	for r := 0; r < R; r++ {
		pi := rng.perm(n)
		h := g.Induced(pi) // vertex i of h is vertex pi[i] of g
		want := make([]int, n)
		least := map[int]int{}
		for i := 0; i < n; i++ {
			o := oc.orbits[pi[i]]
			if _, ok := least[o]; !ok {
				least[o] = i
			}
			want[i] = least[o]
		}
		var gr graph.Graph = denseOf(h)
		rep := "dense"
		if r%2 == 1 {
			gr, rep = sparseOf(h), "sparse"
		}
		what := fmt.Sprintf("CanonicalIsomorphFull(%s; %s relabelled by %v; edges %v)", rep, key, pi, clipEdges(h))
		var perm []int
		var orbits disjoint.Set
		var gens [][]int
		if p := try(func() { perm, orbits, gens = graph.CanonicalIsomorphFull(gr, nil) }); p != nil {
			return fmt.Errorf("%s panicked: %v", what, p)
		}
		if !oracle.IsPerm(perm, n) {
			return fmt.Errorf("%s: %v is not a permutation", what, perm)
		}
		got, err := orbitLabels(orbits, n)
		if err != nil {
			return fmt.Errorf("%s: %v", what, err)
		}
		if !eqInts(got, want) {
			return fmt.Errorf("%s: orbits %v, the orbits of the automorphism group are %v", what, got, want)
		}
		for _, p := range gens {
			if !oracle.IsPerm(p, n) || !oracle.IsAutomorphism(h, p, nil) {
				return fmt.Errorf("%s: generator %v is not an automorphism", what, p)
			}
		}
		if r%8 == 0 {
			if order := oracle.GroupOrder(n, gens); order.Cmp(oc.order) != 0 {
				return fmt.Errorf("%s: the %d generators generate a group of order %v, |Aut| = %v", what, len(gens), order, oc.order)
			}
		}
		scribbleCanonResult(perm, orbits, gens)
	}
	return nil
}

func init() {
	RegisterRapid("C02_few_large_orbits_many_relabellings",
		"rapid: a named graph with few large orbits (generalised Petersen graphs GP(n,k) for n in 5..12 (thorough 16) and every k, vertex-transitive or not; a fifth of the cases on 65..140 vertices (GP(33..48,k), suns, prisms with pendants, two long cycles, coned circulants; a quarter of the relabellings there); suns; K(a,b) with a != b; wheels; prisms with pendants; two cycles of different length; two copies of GP(n,k) plus a cycle; rook graphs; coned circulants; optionally complemented) under 40 (thorough 150) uniform relabellings each, alternating dense and sparse input. The oracle's orbit partition and group order are computed once per base graph and transported along each relabelling: the returned orbits must equal the transported partition, every generator must be an automorphism, and (every eighth relabelling) the generators must generate a group of the right order. Non-trivial: some orbit has >= 5 vertices.",
		Budget{Checks: 300, Shards: 2}, Budget{Checks: 1000, Shards: 16}, genOrbitFamilyCase, checkOrbitFamilyCase)
}
