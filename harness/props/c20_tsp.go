package props

import (
	"errors"
	"fmt"
	"io"
	"math"
	"os"
	"strconv"
	"strings"
	"sync/atomic"
	"syscall"

	"github.com/Tom-Johnston/mamba/tsp"
	"pgregory.net/rapid"
)

// C20: TSPLIB output is well formed and faithful; every failing Write is reported.

type tspCase struct {
	N int
	W [][]int // W[i][j] for j < i: the weight of edge ij (row i has i entries)
	// a weight function that itself writes a sub-problem: when ReN > 0, weights(ReI, ReJ) calls LIB for ReN cities
	// (weights 7i+j) on a writer of its own before it returns
	ReI, ReJ, ReN int    `json:",omitempty"`
	Sample        uint64 `json:",omitempty"` // n > 64: which write indices get a fault (all of them for smaller n)
	NoFaults      bool   `json:",omitempty"` // only the fault-free output is checked (many large instances are affordable then)
}

func genTspCase(t *rapid.T) tspCase {
	n := rapid.IntRange(0, sz(9, 24)).Draw(t, "n")
	if rare(t, "large", uint64(sz(300, 60))) {
		n = rapid.IntRange(31, sz(34, 40)).Draw(t, "ln") // many rows: anything done "every so many rows" happens
	}
	w := make([][]int, n)
	// palette mode: every weight is one of two or three values of different printed width, in runs (instances with
	// 1/2 weights, unit weights with a few heavy edges, ...)
	var palette []int
	if rapid.IntRange(0, 3).Draw(t, "palette") == 0 {
		if n < 4 {
			n = rapid.IntRange(4, 12).Draw(t, "pn")
			w = make([][]int, n)
		}
		for k := rapid.IntRange(2, 3).Draw(t, "pk"); k > 0; k-- {
			palette = append(palette, rapid.SampledFrom([]int{-1, 1, 9, 10, 7, 123, 0, -100, 99, 100, 1000000, -1000000, 3, 12345678}).Draw(t, "pv"))
		}
	}
	prev := 0
	for i := range w {
		w[i] = make([]int, i)
		for j := range w[i] {
			if palette != nil {
				if (i > 1 || j > 0) && rapid.IntRange(0, 9).Draw(t, "run") < 6 {
					w[i][j] = prev
				} else {
					w[i][j] = palette[rapid.IntRange(0, len(palette)-1).Draw(t, "pi")]
				}
				prev = w[i][j]
				continue
			}
			switch rapid.IntRange(0, 9).Draw(t, "kind") {
			case 0:
				w[i][j] = 0
			case 1:
				w[i][j] = -rapid.IntRange(1, 1000000).Draw(t, "neg")
			case 2:
				w[i][j] = rapid.IntRange(1<<40, 1<<62).Draw(t, "big")
			case 3:
				w[i][j] = rapid.SampledFrom([]int{math.MinInt64, math.MinInt64 + 1, math.MaxInt64, math.MinInt32, math.MaxInt32, -1, 1, -9, -10, -99, -100}).Draw(t, "boundary")
			default:
				// asymmetric in definition: depends on (i,j) in a way that a swapped call would not reproduce
				w[i][j] = 100*i + j + rapid.IntRange(0, 3).Draw(t, "small")*10000
			}
		}
	}
	c := tspCase{N: n, W: w}
	if n >= 2 && rapid.IntRange(0, 3).Draw(t, "reentrant") == 0 {
		c.ReI = rapid.IntRange(1, n-1).Draw(t, "rei")
		c.ReJ = rapid.IntRange(0, c.ReI-1).Draw(t, "rej")
		c.ReN = rapid.IntRange(1, 6).Draw(t, "ren")
	}
	return c
}

// genHugeTspCase: 129..140 cities (beyond any "small problem" code path), regular weights, sampled fault positions.
func genHugeTspCase(t *rapid.T) tspCase {
	n := rapid.SampledFrom([]int{65, 100, 127, 128, 129, 130, 140, 200}).Draw(t, "n")
	mul := rapid.SampledFrom([]int{1, 1, 1000, -1, 1 << 40, 1 << 45, -(1 << 45)}).Draw(t, "scale") // up to 19 and 20 characters per weight
	mixed := rapid.Bool().Draw(t, "mixedwidths")
	seedMix := rapid.Uint64().Draw(t, "mixseed")
	w := make([][]int, n)
	for i := range w {
		w[i] = make([]int, i)
		for j := range w[i] {
			w[i][j] = mul * (i*n + j)
			if mixed && hashPrefix(seedMix, []int{i, j})%3 == 0 {
				w[i][j] = (i + j) % 1000 // rows of entries of very different printed width
			}
		}
	}
	return tspCase{N: n, W: w, Sample: rapid.Uint64().Draw(t, "sample") | 1}
}

var errInjected = errors.New("injected write failure")

// temporaryErr looks like a network error that invites a retry.
type temporaryErr struct{}

func (temporaryErr) Error() string   { return "injected temporary failure" }
func (temporaryErr) Temporary() bool { return true }
func (temporaryErr) Timeout() bool   { return true }

// the errors a failing Write returns: the property speaks of "any write ... fails", whatever the error value is
var faultErrors = []error{errInjected, io.ErrShortWrite, temporaryErr{}, syscall.EAGAIN, syscall.EINTR, os.ErrDeadlineExceeded, io.EOF, io.ErrClosedPipe}

// faultWriter records what it accepts and fails according to a schedule.
type faultWriter struct {
	buf       []byte
	calls     int
	failAt    int  // index of the failing call, -1 = never
	permanent bool // also fail every later call
	partial   bool // accept half of the bytes of a failing call
	full      bool // accept all the bytes of a failing call and still report an error (allowed by io.Writer)
	failed    int
	err       error // what a failing call returns (nil = errInjected)
}

func (w *faultWriter) Write(p []byte) (int, error) {
	idx := w.calls
	w.calls++
	if w.failAt >= 0 && (idx == w.failAt || (w.permanent && idx > w.failAt)) {
		w.failed++
		n := 0
		if w.partial {
			n = len(p) / 2
		}
		if w.full {
			n = len(p)
		}
		w.buf = append(w.buf, p[:n]...)
		if w.err != nil {
			return n, w.err
		}
		return n, errInjected
	}
	w.buf = append(w.buf, p...)
	return len(p), nil
}

// faultStringWriter is the same writer with a WriteString method (io.StringWriter), as *os.File, bufio.Writer or
// strings.Builder have: code that prefers WriteString must report its failures as well.
type faultStringWriter struct{ *faultWriter }

func (w faultStringWriter) WriteString(s string) (int, error) { return w.faultWriter.Write([]byte(s)) }

// parseTSPLIB is an independent reader of the subset of TSPLIB that LIB promises.
func parseTSPLIB(out string, n int) (weights []int, err error) {
	idx := strings.Index(out, "EDGE_WEIGHT_SECTION")
	if idx < 0 {
		return nil, fmt.Errorf("no EDGE_WEIGHT_SECTION line")
	}
	header := map[string]string{}
	for _, line := range strings.Split(out[:idx], "\n") {
		line = strings.TrimSpace(line)
		if line == "" {
			continue
		}
		kv := strings.SplitN(line, ":", 2)
		if len(kv) != 2 {
			return nil, fmt.Errorf("header line %q is not 'KEY: value'", line)
		}
		k := strings.TrimSpace(kv[0])
		if _, dup := header[k]; dup {
			return nil, fmt.Errorf("header key %s repeated", k)
		}
		header[k] = strings.TrimSpace(kv[1])
	}
	if header["TYPE"] != "TSP" {
		return nil, fmt.Errorf("TYPE is %q", header["TYPE"])
	}
	if header["DIMENSION"] != strconv.Itoa(n) {
		return nil, fmt.Errorf("DIMENSION is %q want %d", header["DIMENSION"], n)
	}
	if header["EDGE_WEIGHT_TYPE"] != "EXPLICIT" {
		return nil, fmt.Errorf("EDGE_WEIGHT_TYPE is %q", header["EDGE_WEIGHT_TYPE"])
	}
	if header["EDGE_WEIGHT_FORMAT"] != "LOWER_DIAG_ROW" {
		return nil, fmt.Errorf("EDGE_WEIGHT_FORMAT is %q", header["EDGE_WEIGHT_FORMAT"])
	}
	rest := out[idx+len("EDGE_WEIGHT_SECTION"):]
	if !strings.HasPrefix(rest, "\n") {
		return nil, fmt.Errorf("EDGE_WEIGHT_SECTION is not on a line of its own")
	}
	toks := strings.Fields(rest)
	sawEOF := false
	for i, tk := range toks {
		if tk == "EOF" {
			if i != len(toks)-1 {
				return nil, fmt.Errorf("data after EOF")
			}
			sawEOF = true
			break
		}
		v, perr := strconv.Atoi(tk)
		if perr != nil {
			return nil, fmt.Errorf("token %q in the weight section is not an integer", tk)
		}
		weights = append(weights, v)
	}
	if !sawEOF {
		return nil, fmt.Errorf("missing EOF")
	}
	if !strings.HasSuffix(out, "EOF\n") {
		return nil, fmt.Errorf("output does not end with the line EOF")
	}
	return weights, nil
}

var tspSchedules int64

func checkTspCase(c tspCase, rec *Rec) error {
	n := c.N
	var badCall atomic.Value
	weights := func(i, j int) int {
		if !(0 <= j && j < i && i < n) {
			if badCall.Load() == nil {
				badCall.Store(fmt.Sprintf("called weights(%d,%d)", i, j))
			}
			return -424242
		}
		if c.ReN > 0 && i == c.ReI && j == c.ReJ {
			// the weight function writes a sub-problem of its own while the outer call is in progress
			inner := &faultWriter{failAt: -1}
			var ierr error
			if p := try(func() { ierr = tsp.LIB(inner, c.ReN, func(a, b int) int { return 7*a + b }) }); p != nil || ierr != nil {
				badCall.CompareAndSwap(nil, fmt.Sprintf("a nested LIB(n=%d) inside weights(%d,%d) failed: %v %v", c.ReN, i, j, p, ierr))
			} else {
				var iw []int
				for a := 0; a < c.ReN; a++ {
					for b := 0; b < a; b++ {
						iw = append(iw, 7*a+b)
					}
					iw = append(iw, 0)
				}
				if got, perr := parseTSPLIB(string(inner.buf), c.ReN); perr != nil || !eqInts(got, iw) {
					badCall.CompareAndSwap(nil, fmt.Sprintf("a nested LIB(n=%d) inside weights(%d,%d) wrote %q (%v)", c.ReN, i, j, clip(string(inner.buf), 300), perr))
				}
			}
		}
		return c.W[i][j]
	}
	// fault-free run
	ok := &faultWriter{failAt: -1}
	var err error
	if p := try(func() { err = tsp.LIB(ok, n, weights) }); p != nil {
		return fmt.Errorf("LIB(n=%d) panicked: %v", n, p)
	}
	if b := badCall.Load(); b != nil {
		return fmt.Errorf("LIB(n=%d): %s (weights must only be called with 0 <= j < i < n; a weight function may write another problem)", n, b)
	}
	if err != nil {
		return fmt.Errorf("LIB(n=%d) returned %v although no write failed", n, err)
	}
	got, perr := parseTSPLIB(string(ok.buf), n)
	if perr != nil {
		return fmt.Errorf("LIB(n=%d) output malformed: %v\n%s", n, perr, clip(string(ok.buf), 600))
	}
	var want []int
	for i := 0; i < n; i++ {
		want = append(want, c.W[i]...)
		want = append(want, 0)
	}
	if !eqInts(got, want) {
		return fmt.Errorf("LIB(n=%d) weight section is %v want %v", n, clipInts(got), clipInts(want))
	}
	if c.NoFaults {
		rec.NonTrivial(n >= 2)
		rec.Labelf("format-only-n-%d", bucket(n))
		return nil
	}
	// every fault schedule: each Write index x {transient, permanent} x {no bytes, half the bytes}
	W := ok.calls
	rec.NonTrivial(n >= 2)
	rec.Labelf("writes-%d", bucket(W))
	sched := 0
	// n <= 24: all four variants at every write index; larger n (thousands of writes): every write index with the
	// two variants transient/no bytes and permanent/half the bytes
	variants := [][2]bool{{false, false}, {false, true}, {true, false}, {true, true}}
	if n > 24 {
		variants = [][2]bool{{false, false}, {true, true}}
		rec.Label("large-n-two-variants-per-write")
	}
	if c.ReN > 0 {
		rec.Label("reentrant-weight-function")
	}
	faultAt := func(f int) bool { return true }
	if n > 64 {
		// tens of thousands of writes: the first and last 12 write indices and about 40 pseudo-random ones in between
		rec.Label("huge-n-sampled-write-indices")
		every := uint64(max(1, W/40))
		faultAt = func(f int) bool {
			return f < 12 || f >= W-12 || hashPrefix(c.Sample, []int{f})%every == 0
		}
	}
	for f := 0; f < W; f++ {
		if !faultAt(f) {
			continue
		}
		for _, vr := range variants {
			perm := vr[0]
			for _, partial := range []bool{vr[1]} {
				if !perm && !partial {
					// third count variant for transient failures: every byte accepted, error returned all the same
					fw := &faultWriter{failAt: f, full: true, err: faultErrors[(f+3)%len(faultErrors)]}
					var ferr error
					if p := try(func() { ferr = tsp.LIB(fw, n, weights) }); p != nil {
						return fmt.Errorf("LIB(n=%d) panicked with write #%d failing: %v", n, f, p)
					}
					sched++
					if ferr == nil {
						return fmt.Errorf("LIB(n=%d) returned nil although write #%d of %d returned an error (with a full byte count)", n, f, W)
					}
				}
				kind := f
				if perm {
					kind++
				}
				if partial {
					kind += 2
				}
				fw := &faultWriter{failAt: f, permanent: perm, partial: partial, err: faultErrors[kind%len(faultErrors)]}
				var target io.Writer = fw
				if kind%3 == 1 {
					target = faultStringWriter{fw}
				}
				var ferr error
				if p := try(func() { ferr = tsp.LIB(target, n, weights) }); p != nil {
					return fmt.Errorf("LIB(n=%d) panicked with write #%d failing: %v", n, f, p)
				}
				sched++
				if fw.failed == 0 {
					return fmt.Errorf("harness: write #%d of %d was never reached under the fault schedule", f, W)
				}
				if ferr == nil {
					return fmt.Errorf("LIB(n=%d) returned nil although write #%d of %d failed with %q (permanent=%v, partial=%v); %d bytes reached the writer instead of %d",
						n, f, W, fw.err, perm, partial, len(fw.buf), len(ok.buf))
				}
			}
		}
	}
	// small outputs: every kind of error value at every write index (transient, half of the bytes accepted)
	if W <= 80 {
		for f := 0; f < W; f++ {
			for _, e := range faultErrors {
				fw := &faultWriter{failAt: f, partial: true, err: e}
				var target io.Writer = fw
				if (f+len(e.Error()))%2 == 0 {
					target = faultStringWriter{fw}
				}
				var ferr error
				if p := try(func() { ferr = tsp.LIB(target, n, weights) }); p != nil {
					return fmt.Errorf("LIB(n=%d) panicked with write #%d failing with %q: %v", n, f, e, p)
				}
				sched++
				if ferr == nil {
					return fmt.Errorf("LIB(n=%d) returned nil although write #%d of %d failed once with %q (half of the bytes accepted); the writer received %q", n, f, W, e, clip(string(fw.buf), 300))
				}
			}
		}
	}
	// a failed call must not leave anything behind: a fault-free call afterwards gives the same bytes as before
	again := &faultWriter{failAt: -1}
	if p := try(func() { err = tsp.LIB(again, n, weights) }); p != nil || err != nil {
		return fmt.Errorf("LIB(n=%d) after the failing calls: panic=%v err=%v", n, p, err)
	}
	if string(again.buf) != string(ok.buf) {
		return fmt.Errorf("LIB(n=%d) writes different bytes after earlier calls failed: %d bytes instead of %d:\n%s", n, len(again.buf), len(ok.buf), clip(string(again.buf), 400))
	}
	atomic.AddInt64(&tspSchedules, int64(sched))
	SetExtra("fault_schedules_enumerated", atomic.LoadInt64(&tspSchedules))
	return nil
}

func bucket(x int) int {
	switch {
	case x < 10:
		return x
	case x < 100:
		return x / 10 * 10
	}
	return x / 100 * 100
}

func clip(s string, n int) string {
	if len(s) > n {
		return s[:n] + "..."
	}
	return s
}

func clipInts(a []int) string {
	if len(a) > 40 {
		return fmt.Sprint(a[:40]) + "..."
	}
	return fmt.Sprint(a)
}

func init() {
	RegisterRapid("C20_output_and_faults",
		"rapid generates (n in 0..9 quick / 0..24 thorough, weight table with zero, negative, >= 2^40, int boundary (MinInt64, MaxInt64, ...) and position-dependent entries; about one case in three hundred (thorough: sixty) has n in 31..34 (40), where every write index is still enumerated but with two of the four variants; the weight function flags any call outside 0 <= j < i < n; in a quarter of the cases one cell of the weight function itself calls LIB for a 1..6 city sub-problem on another writer, whose output must be right as well). Per case: the fault-free output is parsed by an independent TSPLIB reader and compared with the table; then the fault space is ENUMERATED COMPLETELY: for every index f of the W Write calls of the fault-free run x {only call f fails, f and all later calls fail} x {0 bytes accepted, half accepted}, plus {only call f fails, all bytes accepted but an error returned}, LIB must return a non-nil error (5*W schedules per case); a fault-free call after all the failing ones must reproduce the first output byte for byte. Non-trivial: n >= 2 (the tabwriter-buffered weight section is non-empty).",
		Budget{Checks: 1200, Shards: 1}, Budget{Checks: 3000, Shards: 16}, genTspCase, checkTspCase)
	RegisterRapid("C20_many_cities_sampled_faults",
		"rapid: n in {65, 100, 127, 128, 129, 130, 140, 200} with the position-coded table scale*(i*n+j), scale in {1, 1000, -1, 2^40}; the fault-free output (tens of thousands of Write calls) is parsed and compared; faults (transient with 0 or all bytes accepted, permanent with half) are injected at the first 12 and the last 12 write indices and at about 40 pseudo-random indices in between. Non-trivial: always (n >= 65).",
		Budget{Checks: 20, Shards: 2}, Budget{Checks: 24, Shards: 16}, genHugeTspCase, checkTspCase)
	RegisterRapid("C20_many_cities_format",
		"rapid: n in 20..220 with weights of very different printed width in one table (10..90% of the entries within 1000 of MaxInt64 or MinInt64, i.e. 19 or 20 characters, the others in -1000..999, placed by a hash of the position); only the fault-free output is produced, parsed by the independent reader and compared with the table, so hundreds of large instances are affordable. Non-trivial: always.",
		Budget{Checks: 150, Shards: 2}, Budget{Checks: 600, Shards: 16},
		func(t *rapid.T) tspCase {
			n := rapid.IntRange(20, 220).Draw(t, "fn")
			seed := rapid.Uint64().Draw(t, "fseed")
			longShare := rapid.IntRange(1, 9).Draw(t, "longshare") // tenths of the entries that are 19 or 20 characters long
			c := tspCase{N: n, NoFaults: true, W: make([][]int, n)}
			for i := range c.W {
				c.W[i] = make([]int, i)
				for j := range c.W[i] {
					h := hashPrefix(seed, []int{i, j})
					switch {
					case int(h%10) >= longShare:
						c.W[i][j] = int(h>>8)%2000 - 1000
					case h&16 == 0:
						c.W[i][j] = math.MaxInt64 - int(h>>8)%1000
					default:
						c.W[i][j] = math.MinInt64 + int(h>>8)%1000
					}
				}
			}
			return c
		}, checkTspCase)
	RegisterEnum("C20_small_n_exhaustive_faults",
		"enumeration: every n in 0..12 with the fixed position-coded table w(i,j) = 100*i+j (and its negation), all 4*W fault schedules each; complete for that family.",
		true, Budget{Shards: 1}, Budget{Shards: 1},
		func(yield func(tspCase) bool) {
			for _, sgn := range []int{1, -1} {
				for n := 0; n <= 12; n++ {
					w := make([][]int, n)
					for i := range w {
						w[i] = make([]int, i)
						for j := range w[i] {
							w[i][j] = sgn * (100*i + j)
						}
					}
					if !yield(tspCase{N: n, W: w}) {
						return
					}
				}
			}
		}, checkTspCase)
}
