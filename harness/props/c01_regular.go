package props

import (
	"fmt"

	"github.com/Tom-Johnston/mamba/graph"
	"pgregory.net/rapid"
	"verifharness/oracle"
)

// C01 on random regular graphs (degree 3..6, 10..24 vertices, thorough 40) under several relabellings each: the family
// on which the refinement is least informative and the search tree deepest. Only the metamorphic relation is used
// (equal canonical graph for every relabelling), so thousands of graphs are affordable.

type regularCase struct {
	N, D     int
	Switches int
	Seed     uint64
	R        int
}

func (c regularCase) build() *oracle.G {
	d := c.D
	if c.N*d%2 == 1 {
		d--
	}
	var diffs []int
	for k := 1; k <= d/2; k++ {
		diffs = append(diffs, k)
	}
	if d%2 == 1 {
		diffs = append(diffs, c.N/2)
	}
	g := mCirculant(c.N, diffs)
	rng := newPrng(c.Seed, 5)
	es := g.Edges()
	for s := 0; s < c.Switches && len(es) >= 2; s++ {
		i, j := rng.intn(len(es)), rng.intn(len(es))
		a, b, x, y := es[i][0], es[i][1], es[j][0], es[j][1]
		if rng.intn(2) == 0 {
			x, y = y, x
		}
		if a == x || a == y || b == x || b == y || g.Has(a, x) || g.Has(b, y) {
			continue
		}
		g.Del(a, b)
		g.Del(x, y)
		g.Add(a, x)
		g.Add(b, y)
		es[i], es[j] = [2]int{a, x}, [2]int{b, y}
	}
	return g
}

func genRegularCase(t *rapid.T) regularCase {
	n := rapid.IntRange(10, sz(24, 40)).Draw(t, "n")
	c := regularCase{N: n, D: rapid.SampledFrom([]int{3, 3, 3, 4, 4, 5, 6}).Draw(t, "d"), Seed: rapid.Uint64().Draw(t, "seed"), R: sz(6, 12)}
	c.Switches = rapid.SampledFrom([]int{0, 1, 2, n, 4 * n, 10 * n, 10 * n}).Draw(t, "switches")
	return c
}

func checkRegularCase(c regularCase, rec *Rec) error {
	g := c.build()
	rec.NonTrivial(c.Switches >= c.N)
	rec.Labelf("d=%d", c.D)
	rec.Labelf("switches-%d", bucket(c.Switches))
	canon := func(h *oracle.G, sparse bool) (*oracle.G, error) {
		var gr graph.Graph = denseOf(h)
		if sparse {
			gr = sparseOf(h)
		}
		var p []int
		if pn := try(func() { p = graph.CanonicalIsomorph(gr) }); pn != nil {
			return nil, fmt.Errorf("CanonicalIsomorph(n=%d %v) panicked: %v", h.N, clipEdges(h), pn)
		}
		if !oracle.IsPerm(p, h.N) {
			return nil, fmt.Errorf("CanonicalIsomorph(n=%d %v) = %v is not a permutation", h.N, clipEdges(h), p)
		}
		return h.Induced(p), nil
	}
	base, err := canon(g, false)
	if err != nil {
		return err
	}
	rng := newPrng(c.Seed, 6)
	for r := 0; r < c.R; r++ {
		pi := rng.perm(g.N)
		h := g.Induced(pi)
		ch, err := canon(h, r%2 == 1)
		if err != nil {
			return err
		}
		if !ch.Equal(base) {
			return fmt.Errorf("canonical graphs of g and pi(g) differ: g = %d-regular n=%d %v, pi = %v; canon(g) = %v, canon(pi(g)) = %v",
				c.D, g.N, clipEdges(g), pi, clipEdges(base), clipEdges(ch))
		}
	}
	return nil
}

func init() {
	RegisterRapid("C01_random_regular_many_relabellings",
		"rapid: random d-regular graphs (d in 3..6, 10..24 vertices, thorough 40; a circulant scrambled by 0..10n seed-derived edge switches) under 6 (thorough 12) seed-derived relabellings, dense and sparse input alternating: every relabelling must give the same canonical graph. Metamorphic relation only, no oracle. Non-trivial: at least n switches (the graph is no longer close to a circulant).",
		Budget{Checks: 4000, Shards: 2}, Budget{Checks: 20000, Shards: 16}, genRegularCase, checkRegularCase)
}
