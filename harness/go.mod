module verifharness

go 1.23

require (
	github.com/Tom-Johnston/mamba v0.0.0
	pgregory.net/rapid v1.3.0
)

replace github.com/Tom-Johnston/mamba => /repo
