package oracle

import (
	"math/big"
	"math/bits"
	"sort"
)

// Brute-force graph invariants written from the definitions. Sizes: subset methods need n <= ~16,
// the colouring DP n <= ~12, cycle/path enumeration n <= ~10.

func (g *G) masks() []uint32 {
	m := make([]uint32, g.N)
	for i := 0; i < g.N; i++ {
		for j := 0; j < g.N; j++ {
			if g.A[i][j] {
				m[i] |= 1 << uint(j)
			}
		}
	}
	return m
}

func isClique(adj []uint32, s uint32) bool {
	for t := s; t != 0; t &= t - 1 {
		v := bits.TrailingZeros32(t)
		if (s&^(1<<uint(v)))&^adj[v] != 0 {
			return false
		}
	}
	return true
}

// MaximalCliques returns every maximal clique (ascending vertex lists), by subset enumeration. n <= 20.
func MaximalCliques(g *G) [][]int {
	adj := g.masks()
	var out [][]int
	full := uint32(1)<<uint(g.N) - 1
	for s := uint32(0); s <= full; s++ {
		if !isClique(adj, s) {
			if s == full {
				break
			}
			continue
		}
		// maximal: no vertex outside adjacent to all of s
		common := full &^ s
		for t := s; t != 0; t &= t - 1 {
			common &= adj[bits.TrailingZeros32(t)]
		}
		if common == 0 {
			var c []int
			for t := s; t != 0; t &= t - 1 {
				c = append(c, bits.TrailingZeros32(t))
			}
			if c == nil {
				c = []int{}
			}
			out = append(out, c)
		}
		if s == full {
			break
		}
	}
	return out
}

// CliqueNumber is the size of a largest clique (0 for the empty graph on 0 vertices).
func CliqueNumber(g *G) int {
	best := 0
	for _, c := range MaximalCliques(g) {
		if len(c) > best {
			best = len(c)
		}
	}
	return best
}

// IndependenceNumber is the clique number of the complement.
func IndependenceNumber(g *G) int { return CliqueNumber(g.Complement()) }

// ColourPartitions returns a where a[j] = number of partitions of V into exactly j non-empty independent sets
// (a has length n+1). O(3^n).
func ColourPartitions(g *G) []*big.Int {
	n := g.N
	adj := g.masks()
	size := 1 << uint(n)
	indep := make([]bool, size)
	indep[0] = true
	for s := 1; s < size; s++ {
		v := bits.TrailingZeros32(uint32(s))
		rest := s &^ (1 << uint(v))
		indep[s] = indep[rest] && adj[v]&uint32(rest) == 0
	}
	// f[j][S] = number of partitions of S into j non-empty independent sets
	prev := make([]*big.Int, size)
	for s := range prev {
		prev[s] = new(big.Int)
	}
	prev[0].SetInt64(1)
	a := make([]*big.Int, n+1)
	a[0] = new(big.Int)
	if n == 0 {
		a[0].SetInt64(1)
		return a
	}
	for j := 1; j <= n; j++ {
		cur := make([]*big.Int, size)
		for s := range cur {
			cur[s] = new(big.Int)
		}
		for s := 1; s < size; s++ {
			low := s & -s
			rest := s &^ low
			// the block containing the lowest vertex of S is low | t for t a subset of rest
			for t := rest; ; t = (t - 1) & rest {
				blk := low | t
				if indep[blk] && prev[s&^blk].Sign() != 0 {
					cur[s].Add(cur[s], prev[s&^blk])
				}
				if t == 0 {
					break
				}
			}
		}
		a[j] = cur[size-1]
		prev = cur
	}
	return a
}

// ChromaticNumber from the partition counts.
func ChromaticNumber(g *G) int {
	a := ColourPartitions(g)
	for j, v := range a {
		if v.Sign() > 0 {
			return j
		}
	}
	return 0
}

// ProperColourings(k) = sum_j a_j * k(k-1)...(k-j+1).
func ProperColourings(a []*big.Int, k int) *big.Int {
	total := new(big.Int)
	for j, aj := range a {
		if aj.Sign() == 0 {
			continue
		}
		ff := big.NewInt(1)
		for i := 0; i < j; i++ {
			ff.Mul(ff, big.NewInt(int64(k-i)))
		}
		total.Add(total, ff.Mul(ff, aj))
	}
	return total
}

// LineGraph returns the line graph with vertices = Edges() in that order.
func LineGraph(g *G) *G {
	es := g.Edges()
	l := New(len(es))
	for a := range es {
		for b := 0; b < a; b++ {
			if es[a][0] == es[b][0] || es[a][0] == es[b][1] || es[a][1] == es[b][0] || es[a][1] == es[b][1] {
				l.Add(a, b)
			}
		}
	}
	return l
}

// Degeneracy by the definition: max over non-empty vertex subsets of the minimum degree of the induced subgraph. n <= 20.
func Degeneracy(g *G) int {
	if g.N == 0 {
		return 0
	}
	adj := g.masks()
	best := 0
	full := uint32(1)<<uint(g.N) - 1
	for s := uint32(1); ; s++ {
		mn := g.N
		for t := s; t != 0; t &= t - 1 {
			v := bits.TrailingZeros32(t)
			if d := bits.OnesCount32(adj[v] & s); d < mn {
				mn = d
			}
		}
		if mn > best {
			best = mn
		}
		if s == full {
			break
		}
	}
	return best
}

// DegeneracyGreedy: repeatedly delete a vertex of minimum degree; the largest degree at deletion time (any n).
func DegeneracyGreedy(g *G) int {
	h := g.Copy()
	alive := make([]bool, g.N)
	for i := range alive {
		alive[i] = true
	}
	best := 0
	for r := 0; r < g.N; r++ {
		bv, bd := -1, g.N+1
		for v := 0; v < g.N; v++ {
			if alive[v] {
				if d := h.Deg(v); d < bd {
					bv, bd = v, d
				}
			}
		}
		if bd > best {
			best = bd
		}
		alive[bv] = false
		for u := 0; u < g.N; u++ {
			h.Del(bv, u)
		}
	}
	return best
}

// Distances returns the all-pairs shortest path lengths (-1 = unreachable), by Floyd-Warshall.
func Distances(g *G) [][]int {
	const inf = 1 << 30
	n := g.N
	d := make([][]int, n)
	for i := range d {
		d[i] = make([]int, n)
		for j := range d[i] {
			switch {
			case i == j:
				d[i][j] = 0
			case g.A[i][j]:
				d[i][j] = 1
			default:
				d[i][j] = inf
			}
		}
	}
	for k := 0; k < n; k++ {
		for i := 0; i < n; i++ {
			for j := 0; j < n; j++ {
				if d[i][k]+d[k][j] < d[i][j] {
					d[i][j] = d[i][k] + d[k][j]
				}
			}
		}
	}
	for i := range d {
		for j := range d[i] {
			if d[i][j] >= inf {
				d[i][j] = -1
			}
		}
	}
	return d
}

// Girth: for every edge uv the shortest cycle through it is 1 + dist(u,v) in G - uv. -1 if acyclic.
func Girth(g *G) int {
	best := -1
	for _, e := range g.Edges() {
		h := g.Copy()
		h.Del(e[0], e[1])
		// BFS from e[0]
		dist := make([]int, g.N)
		for i := range dist {
			dist[i] = -1
		}
		dist[e[0]] = 0
		q := []int{e[0]}
		for len(q) > 0 {
			v := q[0]
			q = q[1:]
			for u := 0; u < g.N; u++ {
				if h.A[v][u] && dist[u] < 0 {
					dist[u] = dist[v] + 1
					q = append(q, u)
				}
			}
		}
		if dist[e[1]] > 0 && (best < 0 || dist[e[1]]+1 < best) {
			best = dist[e[1]] + 1
		}
	}
	return best
}

// CycleCounts returns c with c[l] = number of cycles (as subgraphs) with l vertices; len n+1. Explicit DFS. n <= ~11.
func CycleCounts(g *G) []int {
	n := g.N
	c := make([]int, n+1)
	onPath := make([]bool, n)
	var dfs func(start, v, length int)
	dfs = func(start, v, length int) {
		for u := start; u < n; u++ {
			if !g.A[v][u] {
				continue
			}
			if u == start && length >= 3 {
				c[length]++ // each cycle is found twice (two directions)
			}
			if u > start && !onPath[u] {
				onPath[u] = true
				dfs(start, u, length+1)
				onPath[u] = false
			}
		}
	}
	for s := 0; s < n; s++ {
		onPath[s] = true
		dfs(s, s, 1)
		onPath[s] = false
	}
	for i := range c {
		c[i] /= 2
	}
	return c
}

// InducedCycleCounts: c[l] = number of induced cycles with l vertices (l >= 3); len n+1.
func InducedCycleCounts(g *G) []int {
	n := g.N
	c := make([]int, n+1)
	path := []int{}
	inPath := make([]bool, n)
	chordless := func(u int, closing bool) bool {
		// u may only be adjacent to the last vertex of the path (and to the first one when closing)
		for i, w := range path {
			if i == len(path)-1 {
				continue
			}
			if i == 0 && closing {
				continue
			}
			if g.A[u][w] {
				return false
			}
		}
		return true
	}
	var dfs func(start, v int)
	dfs = func(start, v int) {
		for u := start + 1; u < n; u++ {
			if !g.A[v][u] || inPath[u] {
				continue
			}
			if len(path) >= 2 && g.A[u][start] {
				if chordless(u, true) {
					c[len(path)+1]++
				}
				continue // u adjacent to start: cannot be an inner vertex of a longer induced cycle
			}
			if !chordless(u, false) {
				continue
			}
			path = append(path, u)
			inPath[u] = true
			dfs(start, u)
			inPath[u] = false
			path = path[:len(path)-1]
		}
	}
	for s := 0; s < n; s++ {
		path = append(path[:0], s)
		inPath[s] = true
		dfs(s, s)
		inPath[s] = false
	}
	for i := range c {
		c[i] /= 2
	}
	return c
}

// InducedPathCounts: p[l] = number of induced paths with l edges (p[0] = n); len max(n,1).
func InducedPathCounts(g *G) []int {
	n := g.N
	p := make([]int, n+1)
	path := []int{}
	var dfs func(v int)
	dfs = func(v int) {
		p[len(path)-1]++
		for u := 0; u < n; u++ {
			if !g.A[v][u] {
				continue
			}
			ok := true
			for i, w := range path {
				if w == u || (i < len(path)-1 && g.A[u][w]) {
					ok = false
					break
				}
			}
			if !ok {
				continue
			}
			path = append(path, u)
			dfs(u)
			path = path[:len(path)-1]
		}
	}
	for s := 0; s < n; s++ {
		path = append(path[:0], s)
		dfs(s)
	}
	for i := 1; i < len(p); i++ {
		p[i] /= 2
	}
	return p[:n+1]
}

func connectedMask(adj []uint32, s uint32) bool {
	if s == 0 {
		return false
	}
	seen := s & -s
	frontier := seen
	for frontier != 0 {
		v := bits.TrailingZeros32(frontier)
		frontier &^= 1 << uint(v)
		nw := adj[v] & s &^ seen
		seen |= nw
		frontier |= nw
	}
	return seen == s
}

// Blocks returns the blocks (maximal connected subgraphs without a cut vertex; isolated vertices and bridges are
// blocks) as ascending vertex lists, and the articulation vertices, both from the definitions by subset enumeration. n <= 16.
func Blocks(g *G) (blocks [][]int, articulation []int) {
	adj := g.masks()
	n := g.N
	full := uint32(1)<<uint(n) - 1
	isBlock := func(s uint32) bool {
		if !connectedMask(adj, s) {
			return false
		}
		if bits.OnesCount32(s) <= 2 {
			return true
		}
		for t := s; t != 0; t &= t - 1 {
			if !connectedMask(adj, s&^(1<<uint(bits.TrailingZeros32(t)))) {
				return false
			}
		}
		return true
	}
	var cands []uint32
	if n > 0 {
		for s := uint32(1); ; s++ {
			if isBlock(s) {
				cands = append(cands, s)
			}
			if s == full {
				break
			}
		}
	}
	// a candidate is a block iff it is not contained in a larger candidate; scan by decreasing size and compare
	// only with the blocks already accepted (every candidate lies inside some maximal one)
	sort.Slice(cands, func(a, b int) bool { return bits.OnesCount32(cands[a]) > bits.OnesCount32(cands[b]) })
	var accepted []uint32
	for _, s := range cands {
		maximal := true
		for _, t := range accepted {
			if t&s == s {
				maximal = false
				break
			}
		}
		if maximal {
			accepted = append(accepted, s)
			var b []int
			for t := s; t != 0; t &= t - 1 {
				b = append(b, bits.TrailingZeros32(t))
			}
			blocks = append(blocks, b)
		}
	}
	sort.Slice(blocks, func(a, b int) bool {
		for i := 0; i < len(blocks[a]) && i < len(blocks[b]); i++ {
			if blocks[a][i] != blocks[b][i] {
				return blocks[a][i] < blocks[b][i]
			}
		}
		return len(blocks[a]) < len(blocks[b])
	})
	base := len(Components(g))
	for v := 0; v < n; v++ {
		h := g.Copy()
		h.RemoveVertex(v)
		if len(Components(h)) > base {
			articulation = append(articulation, v)
		}
	}
	if articulation == nil {
		articulation = []int{}
	}
	return blocks, articulation
}

// BlocksLarge computes blocks and articulation vertices for any n from two elementary facts: v is an articulation
// vertex iff G-v has more components than G; two edges at a common vertex a lie in the same block iff a is not an
// articulation vertex or their other ends are connected in G-a. Blocks are the classes of the generated equivalence
// (plus isolated vertices).
func BlocksLarge(g *G) (blocks [][]int, articulation []int) {
	n := g.N
	base := len(Components(g))
	isArt := make([]bool, n)
	compWithout := make([][]int, n) // component labels in G - a, for articulation vertices a
	for v := 0; v < n; v++ {
		h := g.Copy()
		for u := 0; u < n; u++ {
			h.Del(u, v)
		}
		comps := Components(h) // v is now isolated: one extra singleton component
		if len(comps)-1 > base-boolToInt(g.Deg(v) == 0) {
			isArt[v] = true
			articulation = append(articulation, v)
			lab := make([]int, n)
			for ci, c := range comps {
				for _, x := range c {
					lab[x] = ci
				}
			}
			compWithout[v] = lab
		}
	}
	if articulation == nil {
		articulation = []int{}
	}
	es := g.Edges()
	parent := make([]int, len(es))
	for i := range parent {
		parent[i] = i
	}
	var find func(x int) int
	find = func(x int) int {
		for parent[x] != x {
			parent[x] = parent[parent[x]]
			x = parent[x]
		}
		return x
	}
	for a := range es {
		for b := 0; b < a; b++ {
			for _, x := range es[a] {
				for _, y := range es[b] {
					if x != y {
						continue
					}
					oa, ob := es[a][0]+es[a][1]-x, es[b][0]+es[b][1]-x
					if !isArt[x] || compWithout[x][oa] == compWithout[x][ob] {
						parent[find(a)] = find(b)
					}
				}
			}
		}
	}
	sets := map[int]map[int]bool{}
	for i, e := range es {
		r := find(i)
		if sets[r] == nil {
			sets[r] = map[int]bool{}
		}
		sets[r][e[0]] = true
		sets[r][e[1]] = true
	}
	for _, s := range sets {
		var b []int
		for v := range s {
			b = append(b, v)
		}
		sort.Ints(b)
		blocks = append(blocks, b)
	}
	for v := 0; v < n; v++ {
		if g.Deg(v) == 0 {
			blocks = append(blocks, []int{v})
		}
	}
	sort.Slice(blocks, func(a, b int) bool {
		for i := 0; i < len(blocks[a]) && i < len(blocks[b]); i++ {
			if blocks[a][i] != blocks[b][i] {
				return blocks[a][i] < blocks[b][i]
			}
		}
		return len(blocks[a]) < len(blocks[b])
	})
	return blocks, articulation
}

func boolToInt(b bool) int {
	if b {
		return 1
	}
	return 0
}

// ChromaticNumberFast: minimum number of independent sets covering V, by DP over vertex subsets with small integers
// (f[S] = 1 + min over independent I within S containing the lowest vertex of S of f[S \ I]); O(3^n), n <= 14.
func ChromaticNumberFast(g *G) int {
	n := g.N
	if n == 0 {
		return 0
	}
	adj := g.masks()
	size := 1 << uint(n)
	indep := make([]bool, size)
	indep[0] = true
	for s := 1; s < size; s++ {
		v := bits.TrailingZeros32(uint32(s))
		rest := s &^ (1 << uint(v))
		indep[s] = indep[rest] && adj[v]&uint32(rest) == 0
	}
	f := make([]uint8, size)
	for s := 1; s < size; s++ {
		low := s & -s
		rest := s &^ low
		best := uint8(255)
		for t := rest; ; t = (t - 1) & rest {
			if indep[low|t] {
				if c := f[s&^(low|t)] + 1; c < best {
					best = c
				}
			}
			if t == 0 {
				break
			}
		}
		f[s] = best
	}
	return int(f[size-1])
}

// MaximalCliquesLarge lists the maximal cliques of a graph on any number of vertices with the textbook recursion
// "extend R by a vertex of P, move it to X" (pivoting on the vertex of P u X with most neighbours in P), over boolean
// membership slices. It stops and returns nil, false once more than limit cliques were found.
func MaximalCliquesLarge(g *G, limit int) ([][]int, bool) {
	n := g.N
	var out [][]int
	var R []int
	over := false
	var rec func(P, X []int)
	rec = func(P, X []int) {
		if over {
			return
		}
		if len(P) == 0 {
			if len(X) == 0 {
				c := append([]int{}, R...)
				sort.Ints(c)
				out = append(out, c)
				if len(out) > limit {
					over = true
				}
			}
			return
		}
		pivot, best := -1, -1
		for _, cand := range [][]int{P, X} {
			for _, u := range cand {
				k := 0
				for _, w := range P {
					if g.A[u][w] {
						k++
					}
				}
				if k > best {
					pivot, best = u, k
				}
			}
		}
		todo := []int{}
		for _, v := range P {
			if !g.A[pivot][v] {
				todo = append(todo, v)
			}
		}
		inP := make(map[int]bool, len(P))
		for _, v := range P {
			inP[v] = true
		}
		Xc := append([]int{}, X...)
		for _, v := range todo {
			var P2, X2 []int
			for _, w := range P {
				if inP[w] && g.A[v][w] {
					P2 = append(P2, w)
				}
			}
			for _, w := range Xc {
				if g.A[v][w] {
					X2 = append(X2, w)
				}
			}
			R = append(R, v)
			rec(P2, X2)
			R = R[:len(R)-1]
			inP[v] = false
			Xc = append(Xc, v)
		}
	}
	all := make([]int, n)
	for i := range all {
		all[i] = i
	}
	rec(all, nil)
	if over {
		return nil, false
	}
	return out, true
}
