package oracle

import (
	"math/big"
	"math/rand"
	"testing"
	"time"
)

func auFact(n int) *big.Int {
	r := big.NewInt(1)
	for i := 2; i <= n; i++ {
		r.Mul(r, big.NewInt(int64(i)))
	}
	return r
}

func auMul(xs ...*big.Int) *big.Int {
	r := big.NewInt(1)
	for _, x := range xs {
		r.Mul(r, x)
	}
	return r
}

// auBruteAuts lists all class-preserving automorphisms by trying all n! permutations; the check
// is written out here rather than calling IsAutomorphism.
func auBruteAuts(g *G, class []int) [][]int {
	var r [][]int
	cnPerms(g.N, func(p []int) {
		for u := 0; u < g.N; u++ {
			if class != nil && class[u] != class[p[u]] {
				return
			}
			for v := 0; v < u; v++ {
				if g.Has(u, v) != g.Has(p[u], p[v]) {
					return
				}
			}
		}
		r = append(r, append([]int{}, p...))
	})
	return r
}

func auBruteOrbits(n int, auts [][]int) []int {
	r := make([]int, n)
	for v := range r {
		r[v] = v
	}
	// r[v] = min over automorphisms p of p[v] (the orbit of v is {p[v]}).
	for v := 0; v < n; v++ {
		for _, p := range auts {
			if p[v] < r[v] {
				r[v] = p[v]
			}
		}
	}
	return r
}

func auEqInts(a, b []int) bool {
	if len(a) != len(b) {
		return false
	}
	for i := range a {
		if a[i] != b[i] {
			return false
		}
	}
	return true
}

func TestAutOrderKnown(t *testing.T) {
	type tc struct {
		name string
		g    *G
		want *big.Int
	}
	cases := []tc{
		{"petersen", cnPetersen(), big.NewInt(120)},
		{"q3", cnHypercube(3), big.NewInt(48)},
		{"q4", cnHypercube(4), big.NewInt(384)},
		{"q5", cnHypercube(5), big.NewInt(3840)},
		{"paley9", cnPaley9(), big.NewInt(72)},
		{"rook3x3", cnRook(3, 3), big.NewInt(72)},
		{"rook4x4", cnRook(4, 4), big.NewInt(1152)},
		{"rook3x4", cnRook(3, 4), big.NewInt(144)},
		{"frucht", cnFrucht(), big.NewInt(1)},
		{"shrikhande", cnShrikhande(), big.NewInt(192)},
		{"clebsch", cnClebsch(), big.NewInt(1920)},
		{"paley13", cnPaley(13), big.NewInt(78)},
		{"paley17", cnPaley(17), big.NewInt(136)},
		{"paley29", cnPaley(29), big.NewInt(406)},
		{"shrikhande+rook4x4", DisjointUnion(cnShrikhande(), cnRook(4, 4)), big.NewInt(192 * 1152)},
		{"2petersen+frucht", DisjointUnion(cnCopies(cnPetersen(), 2), cnFrucht()), big.NewInt(2 * 120 * 120)},
		{"2c5", cnCopies(cnCycle(5), 2), big.NewInt(200)},
		{"3c4", cnCopies(cnCycle(4), 3), big.NewInt(8 * 8 * 8 * 6)},
		{"k333", cnMultipartite(3, 3, 3), big.NewInt(6 * 6 * 6 * 6)},
		{"coPetersen", cnPetersen().Complement(), big.NewInt(120)},
		{"n0", New(0), big.NewInt(1)},
		{"n1", New(1), big.NewInt(1)},
	}
	for n := 3; n <= 32; n++ {
		cases = append(cases, tc{"cycle", cnCycle(n), big.NewInt(int64(2 * n))})
	}
	for n := 2; n <= 32; n++ {
		cases = append(cases, tc{"path", cnPath(n), big.NewInt(2)})
	}
	for _, n := range []int{1, 2, 3, 4, 5, 8, 13, 20, 32} {
		cases = append(cases, tc{"complete", cnComplete(n), auFact(n)})
		cases = append(cases, tc{"empty", New(n), auFact(n)})
	}
	for _, n := range []int{1, 2, 3, 5, 8, 16} {
		cases = append(cases, tc{"knn", cnMultipartite(n, n), auMul(big.NewInt(2), auFact(n), auFact(n))})
	}
	for _, ab := range [][2]int{{1, 2}, {1, 9}, {2, 3}, {3, 7}, {5, 12}, {1, 31}, {10, 22}, {15, 17}} {
		cases = append(cases, tc{"kab", cnMultipartite(ab[0], ab[1]), auMul(auFact(ab[0]), auFact(ab[1]))})
	}
	for _, c := range cases {
		t0 := time.Now()
		got := AutOrder(c.g, nil)
		if got.Cmp(c.want) != 0 {
			t.Errorf("%s n=%d: AutOrder = %v, want %v", c.name, c.g.N, got, c.want)
		}
		if d := time.Since(t0); d > 5*time.Second {
			t.Errorf("%s n=%d: AutOrder took %v", c.name, c.g.N, d)
		}
		// The complement has the same group.
		if c.g.N <= 16 {
			if got := AutOrder(c.g.Complement(), nil); got.Cmp(c.want) != 0 {
				t.Errorf("complement of %s n=%d: AutOrder = %v, want %v", c.name, c.g.N, got, c.want)
			}
		}
	}
}

func TestAutOrderClasses(t *testing.T) {
	// C6 with one vertex marked: only the reflection through it remains.
	cl := make([]int, 6)
	cl[2] = 1
	if got := AutOrder(cnCycle(6), cl); got.Cmp(big.NewInt(2)) != 0 {
		t.Errorf("C6 one marked: %v", got)
	}
	// K_{4,4} with the sides as classes: no swap.
	cl = []int{0, 0, 0, 0, 7, 7, 7, 7}
	if got := AutOrder(cnMultipartite(4, 4), cl); got.Cmp(big.NewInt(576)) != 0 {
		t.Errorf("K44 sides: %v", got)
	}
	// K_6 with classes of sizes 1,2,3 (negative and unordered values).
	cl = []int{-3, 10, 10, 4, 4, 4}
	if got := AutOrder(cnComplete(6), cl); got.Cmp(big.NewInt(12)) != 0 {
		t.Errorf("K6 classes: %v", got)
	}
	// Petersen with one vertex marked: stabiliser of order 12.
	cl = make([]int, 10)
	cl[7] = 1
	if got := AutOrder(cnPetersen(), cl); got.Cmp(big.NewInt(12)) != 0 {
		t.Errorf("Petersen one marked: %v", got)
	}
	orb := AutOrbits(cnPetersen(), cl)
	cnt := map[int]int{}
	for _, o := range orb {
		cnt[o]++
	}
	if len(cnt) != 3 || cnt[7] != 1 {
		t.Errorf("Petersen one marked orbits: %v", orb)
	}
}

func TestAutOrbitsKnown(t *testing.T) {
	allZero := func(o []int) bool {
		for _, x := range o {
			if x != 0 {
				return false
			}
		}
		return true
	}
	for name, g := range map[string]*G{
		"petersen": cnPetersen(), "q4": cnHypercube(4), "q5": cnHypercube(5), "k32": cnComplete(32),
		"e32": New(32), "c31": cnCycle(31), "k16,16": cnMultipartite(16, 16), "rook4x4": cnRook(4, 4),
		"2c5": cnCopies(cnCycle(5), 2), "paley9": cnPaley9(),
	} {
		if !allZero(AutOrbits(g, nil)) {
			t.Errorf("%s should be vertex-transitive", name)
		}
	}
	if o := AutOrbits(cnFrucht(), nil); !auEqInts(o, []int{0, 1, 2, 3, 4, 5, 6, 7, 8, 9, 10, 11}) {
		t.Errorf("Frucht orbits %v", o)
	}
	if o := AutOrbits(cnPath(5), nil); !auEqInts(o, []int{0, 1, 2, 1, 0}) {
		t.Errorf("P5 orbits %v", o)
	}
	if o := AutOrbits(cnMultipartite(2, 3), nil); !auEqInts(o, []int{0, 0, 2, 2, 2}) {
		t.Errorf("K23 orbits %v", o)
	}
	// C6 + 2 C3: regular, 1-WL sees one cell, but two orbits.
	if o := AutOrbits(DisjointUnion(cnCycle(6), cnCopies(cnCycle(3), 2)), nil); !auEqInts(o, []int{0, 0, 0, 0, 0, 0, 6, 6, 6, 6, 6, 6}) {
		t.Errorf("C6+2C3 orbits %v", o)
	}
	if o := AutOrbits(New(0), nil); len(o) != 0 {
		t.Errorf("n=0 orbits %v", o)
	}
}

func TestIsAutomorphism(t *testing.T) {
	g := cnCycle(5)
	if !IsAutomorphism(g, []int{1, 2, 3, 4, 0}, nil) || !IsAutomorphism(g, []int{0, 4, 3, 2, 1}, nil) {
		t.Error("rotation/reflection of C5 rejected")
	}
	if IsAutomorphism(g, []int{1, 0, 2, 3, 4}, nil) {
		t.Error("transposition accepted on C5")
	}
	if IsAutomorphism(g, []int{0, 1, 2, 3, 3}, nil) || IsAutomorphism(g, []int{0, 1, 2, 3}, nil) || IsAutomorphism(g, []int{0, 1, 2, 3, 5}, nil) {
		t.Error("non-permutation accepted")
	}
	if IsAutomorphism(g, []int{1, 2, 3, 4, 0}, []int{1, 0, 0, 0, 0}) {
		t.Error("class-breaking rotation accepted")
	}
	if !IsAutomorphism(g, []int{0, 4, 3, 2, 1}, []int{1, 0, 0, 0, 0}) {
		t.Error("class-preserving reflection rejected")
	}
	if !IsAutomorphism(New(0), []int{}, nil) {
		t.Error("empty permutation on empty graph rejected")
	}
}

// All class representatives with n <= 6 (and random 2-class colourings): orbits, order and the
// generators found agree with brute force over all n! permutations.
func TestAutVsBruteForce(t *testing.T) {
	r := rand.New(rand.NewSource(5))
	for n := 0; n <= 6; n++ {
		sum := big.NewInt(0)
		for idx, g0 := range IsoClasses(n) {
			g := g0.Induced(cnRandPerm(r, n))
			for k := 0; k < 4; k++ {
				var cl []int
				if k > 0 {
					cl = make([]int, n)
					for i := range cl {
						cl[i] = r.Intn(2) * 3
					}
				}
				auts := auBruteAuts(g, cl)
				for _, p := range auts {
					if !IsAutomorphism(g, p, cl) {
						t.Fatalf("IsAutomorphism rejects a brute-force automorphism")
					}
				}
				if got := AutOrder(g, cl); got.Cmp(big.NewInt(int64(len(auts)))) != 0 {
					t.Fatalf("n=%d rep %d class %v: AutOrder %v, brute force %d", n, idx, cl, got, len(auts))
				}
				if got, want := AutOrbits(g, cl), auBruteOrbits(n, auts); !auEqInts(got, want) {
					t.Fatalf("n=%d rep %d class %v: AutOrbits %v, brute force %v", n, idx, cl, got, want)
				}
				gens := auGenerators(g, cl)
				for _, p := range gens {
					if !IsAutomorphism(g, p, cl) {
						t.Fatalf("generator %v is not an automorphism", p)
					}
				}
				if got := GroupOrder(n, gens); got.Cmp(big.NewInt(int64(len(auts)))) != 0 {
					t.Fatalf("n=%d rep %d: <generators> has order %v, want %d", n, idx, got, len(auts))
				}
				if got := GroupOrder(n, auts); got.Cmp(big.NewInt(int64(len(auts)))) != 0 {
					t.Fatalf("n=%d rep %d: GroupOrder(all automorphisms) = %v, want %d", n, idx, got, len(auts))
				}
				if !auEqInts(GroupOrbits(n, gens), AutOrbits(g, cl)) {
					t.Fatalf("n=%d rep %d: GroupOrbits(generators) != AutOrbits", n, idx)
				}
				if k == 0 {
					sum.Add(sum, new(big.Int).Div(auFact(n), big.NewInt(int64(len(auts)))))
				}
			}
		}
		if want := new(big.Int).Lsh(big.NewInt(1), uint(n*(n-1)/2)); sum.Cmp(want) != 0 {
			t.Fatalf("n=%d: sum n!/|Aut| = %v, want %v", n, sum, want)
		}
	}
}

// n = 7: the class sizes n!/|Aut| add up to the number of labelled graphs, the generators found
// generate a group of order AutOrder with the orbits reported by AutOrbits.
func TestAutCrossChecks7(t *testing.T) {
	n := 7
	sum := big.NewInt(0)
	for idx, g := range IsoClasses(n) {
		o := AutOrder(g, nil)
		q, m := new(big.Int).DivMod(auFact(n), o, new(big.Int))
		if m.Sign() != 0 {
			t.Fatalf("rep %d: |Aut| = %v does not divide 7!", idx, o)
		}
		sum.Add(sum, q)
		gens := auGenerators(g, nil)
		for _, p := range gens {
			if !IsAutomorphism(g, p, nil) {
				t.Fatalf("rep %d: generator %v is not an automorphism", idx, p)
			}
		}
		if got := GroupOrder(n, gens); got.Cmp(o) != 0 {
			t.Fatalf("rep %d: <generators> has order %v, AutOrder %v", idx, got, o)
		}
		if !auEqInts(GroupOrbits(n, gens), AutOrbits(g, nil)) {
			t.Fatalf("rep %d: GroupOrbits(generators) != AutOrbits", idx)
		}
		if oc := AutOrder(g.Complement(), nil); oc.Cmp(o) != 0 {
			t.Fatalf("rep %d: complement has a different group order", idx)
		}
	}
	if want := new(big.Int).Lsh(big.NewInt(1), 21); sum.Cmp(want) != 0 {
		t.Fatalf("n=7: sum n!/|Aut| = %v, want %v", sum, want)
	}
}

// Relabelling conjugates the group: same order, orbits transported.
func TestAutRelabelling(t *testing.T) {
	r := rand.New(rand.NewSource(11))
	for _, g := range []*G{cnPetersen(), cnHypercube(4), cnRook(3, 4), cnFrucht(), cnMultipartite(2, 3, 4),
		DisjointUnion(cnCycle(6), cnCopies(cnCycle(3), 2)), cnRandGraph(r, 20, 0.3), cnPath(9)} {
		n := g.N
		p := cnRandPerm(r, n)
		h := g.Induced(p) // vertex i of h is vertex p[i] of g
		if AutOrder(g, nil).Cmp(AutOrder(h, nil)) != 0 {
			t.Fatalf("order changed under relabelling")
		}
		og, oh := AutOrbits(g, nil), AutOrbits(h, nil)
		for i := 0; i < n; i++ {
			for j := 0; j < n; j++ {
				if (oh[i] == oh[j]) != (og[p[i]] == og[p[j]]) {
					t.Fatalf("orbits not transported")
				}
			}
		}
		for v := 0; v < n; v++ {
			if og[v] > v || og[og[v]] != og[v] {
				t.Fatalf("orbit representative is not the minimum")
			}
		}
	}
}

func TestAutTimings(t *testing.T) {
	for _, c := range []struct {
		name string
		g    *G
	}{
		{"k32", cnComplete(32)}, {"e32", New(32)}, {"k16,16", cnMultipartite(16, 16)}, {"k10,22", cnMultipartite(10, 22)},
		{"q5", cnHypercube(5)}, {"q4", cnHypercube(4)}, {"petersen", cnPetersen()}, {"c32", cnCycle(32)},
		{"rook4x8", cnRook(4, 8)}, {"paley29", cnPaley(29)}, {"shrik+rook", DisjointUnion(cnShrikhande(), cnRook(4, 4))}, {"8c4", cnCopies(cnCycle(4), 8)}, {"4q3", cnCopies(cnHypercube(3), 4)},
	} {
		t0 := time.Now()
		o := AutOrder(c.g, nil)
		d1 := time.Since(t0)
		t0 = time.Now()
		AutOrbits(c.g, nil)
		d2 := time.Since(t0)
		t.Logf("%-9s n=%2d |Aut|=%v AutOrder %v AutOrbits %v", c.name, c.g.N, o, d1, d2)
		if d1 > 10*time.Second || d2 > 10*time.Second {
			t.Errorf("%s too slow", c.name)
		}
	}
}
