package oracle

import (
	"fmt"
	"testing"
)

func ivPetersen() *G {
	g := New(10)
	for i := 0; i < 5; i++ {
		g.Add(i, (i+1)%5)
		g.Add(i, 5+i)
		g.Add(5+i, 5+(i+2)%5)
	}
	return g
}

func ivBruteChi(g *G) int {
	n := g.N
	if n == 0 {
		return 0
	}
	col := make([]int, n)
	for k := 1; k <= n; k++ {
		var rec func(v int) bool
		rec = func(v int) bool {
			if v == n {
				return true
			}
			for c := 0; c < k; c++ {
				ok := true
				for u := 0; u < v; u++ {
					if g.A[u][v] && col[u] == c {
						ok = false
						break
					}
				}
				if ok {
					col[v] = c
					if rec(v + 1) {
						return true
					}
				}
			}
			return false
		}
		if rec(0) {
			return k
		}
	}
	return n
}

func ivBruteColourings(g *G, k int) int64 {
	n := g.N
	col := make([]int, n)
	var cnt int64
	var rec func(v int)
	rec = func(v int) {
		if v == n {
			cnt++
			return
		}
		for c := 0; c < k; c++ {
			ok := true
			for u := 0; u < v; u++ {
				if g.A[u][v] && col[u] == c {
					ok = false
					break
				}
			}
			if ok {
				col[v] = c
				rec(v + 1)
			}
		}
	}
	rec(0)
	return cnt
}

func TestInvariantsKnown(t *testing.T) {
	p := ivPetersen()
	if CliqueNumber(p) != 2 || IndependenceNumber(p) != 4 || ChromaticNumber(p) != 3 || Girth(p) != 5 || Degeneracy(p) != 3 || DegeneracyGreedy(p) != 3 {
		t.Fatalf("petersen: %d %d %d %d %d", CliqueNumber(p), IndependenceNumber(p), ChromaticNumber(p), Girth(p), Degeneracy(p))
	}
	if fmt.Sprint(CycleCounts(p)) != "[0 0 0 0 0 12 10 0 15 20 0]" {
		t.Fatalf("petersen cycles %v", CycleCounts(p))
	}
	ic := InducedCycleCounts(p)
	if ic[5] != 12 || ic[6] != 10 || ic[3] != 0 || ic[4] != 0 {
		t.Fatalf("petersen induced cycles %v", ic)
	}
	if ChromaticNumber(LineGraph(p)) != 4 { // Petersen is class 2
		t.Fatal("petersen chromatic index")
	}
	k4 := New(4).Complement()
	if fmt.Sprint(CycleCounts(k4)) != "[0 0 0 4 3]" || fmt.Sprint(InducedCycleCounts(k4)) != "[0 0 0 4 0]" {
		t.Fatalf("k4 %v %v", CycleCounts(k4), InducedCycleCounts(k4))
	}
	p4 := FromEdges(4, [][2]int{{0, 1}, {1, 2}, {2, 3}})
	if fmt.Sprint(InducedPathCounts(p4)) != "[4 3 2 1 0]" {
		t.Fatalf("p4 induced paths %v", InducedPathCounts(p4))
	}
	bow := FromEdges(6, [][2]int{{0, 1}, {1, 2}, {0, 2}, {2, 3}, {3, 4}, {2, 4}})
	b, a := Blocks(bow)
	if fmt.Sprint(b) != "[[0 1 2] [2 3 4] [5]]" || fmt.Sprint(a) != "[2]" {
		t.Fatalf("bowtie blocks %v %v", b, a)
	}
	pb, pa := Blocks(p4)
	if fmt.Sprint(pb) != "[[0 1] [1 2] [2 3]]" || fmt.Sprint(pa) != "[1 2]" {
		t.Fatalf("path blocks %v %v", pb, pa)
	}
	if Girth(p4) != -1 || Girth(New(0)) != -1 {
		t.Fatal("girth acyclic")
	}
	d := Distances(FromEdges(4, [][2]int{{0, 1}, {1, 2}}))
	if d[0][2] != 2 || d[0][3] != -1 || d[3][3] != 0 {
		t.Fatal("distances")
	}
}

func TestInvariantsAgainstBruteForce(t *testing.T) {
	for n := 0; n <= 6; n++ {
		for _, g := range IsoClasses(n) {
			if c, b := ChromaticNumber(g), ivBruteChi(g); c != b {
				t.Fatalf("chi %v: %d vs %d", g.Key(), c, b)
			}
			if Degeneracy(g) != DegeneracyGreedy(g) {
				t.Fatalf("degeneracy %v", g.Key())
			}
			a := ColourPartitions(g)
			for k := 0; k <= 4; k++ {
				if got, want := ProperColourings(a, k).Int64(), ivBruteColourings(g, k); got != want {
					t.Fatalf("P(%v,%d) = %d want %d", g.Key(), k, got, want)
				}
			}
			// clique number vs complement independence
			if CliqueNumber(g) != IndependenceNumber(g.Complement()) {
				t.Fatal("clique/independence")
			}
			// number of cycles: sum over lengths equals cycles found via induced/non-induced consistency: induced <= all
			cc, ic := CycleCounts(g), InducedCycleCounts(g)
			for l := range cc {
				if ic[l] > cc[l] {
					t.Fatalf("induced cycles exceed cycles %v", g.Key())
				}
			}
			if gi := Girth(g); gi >= 3 {
				if cc[gi] == 0 || ic[gi] != cc[gi] {
					t.Fatalf("girth cycles must all be induced: %v girth %d %v %v", g.Key(), gi, cc, ic)
				}
				for l := 3; l < gi; l++ {
					if cc[l] != 0 {
						t.Fatalf("cycle shorter than girth %v", g.Key())
					}
				}
			} else {
				for l := range cc {
					if cc[l] != 0 {
						t.Fatalf("acyclic graph has cycles %v", g.Key())
					}
				}
			}
			bl2, art2 := BlocksLarge(g)
			if bl1, art1 := Blocks(g); fmt.Sprint(bl1) != fmt.Sprint(bl2) || fmt.Sprint(art1) != fmt.Sprint(art2) {
				t.Fatalf("Blocks vs BlocksLarge on %v: %v %v vs %v %v", g.Key(), bl1, art1, bl2, art2)
			}
			// blocks cover all vertices, pairwise share at most one vertex; shared vertices are exactly the articulation points
			bl, art := Blocks(g)
			cover := map[int]int{}
			for _, b := range bl {
				for _, v := range b {
					cover[v]++
				}
			}
			for v := 0; v < g.N; v++ {
				isArt := false
				for _, a := range art {
					if a == v {
						isArt = true
					}
				}
				if cover[v] == 0 || (cover[v] > 1) != isArt {
					t.Fatalf("blocks/articulation inconsistent on %v: %v %v", g.Key(), bl, art)
				}
			}
		}
	}
}

func TestChromaticNumberFast(t *testing.T) {
	for n := 0; n <= 7; n++ {
		for _, g := range IsoClasses(n) {
			if a, b := ChromaticNumberFast(g), ChromaticNumber(g); a != b {
				t.Fatalf("%v: fast %d dp %d", g.Key(), a, b)
			}
		}
	}
	if ChromaticNumberFast(ivPetersen()) != 3 {
		t.Fatal("petersen")
	}
}
