package oracle

import (
	"fmt"
	"sort"
)

// G is the reference model of a simple undirected graph: a symmetric boolean matrix with a
// false diagonal. All graph oracles work on it.
type G struct {
	N int
	A [][]bool
}

// New returns the edgeless graph on n vertices.
func New(n int) *G {
	a := make([][]bool, n)
	for i := range a {
		a[i] = make([]bool, n)
	}
	return &G{N: n, A: a}
}

// FromEdges builds a graph from an edge list (loops and repeats are ignored).
func FromEdges(n int, edges [][2]int) *G {
	g := New(n)
	for _, e := range edges {
		g.Add(e[0], e[1])
	}
	return g
}

// Add inserts the edge ij (no-op for i == j).
func (g *G) Add(i, j int) {
	if i == j {
		return
	}
	g.A[i][j] = true
	g.A[j][i] = true
}

// Del removes the edge ij.
func (g *G) Del(i, j int) {
	if i == j {
		return
	}
	g.A[i][j] = false
	g.A[j][i] = false
}

// Has reports whether ij is an edge.
func (g *G) Has(i, j int) bool { return g.A[i][j] }

// Nbrs returns the neighbours of v in ascending order.
func (g *G) Nbrs(v int) []int {
	r := []int{}
	for u := 0; u < g.N; u++ {
		if g.A[v][u] {
			r = append(r, u)
		}
	}
	return r
}

// Deg returns the degree of v.
func (g *G) Deg(v int) int {
	d := 0
	for u := 0; u < g.N; u++ {
		if g.A[v][u] {
			d++
		}
	}
	return d
}

// Degs returns the degree sequence.
func (g *G) Degs() []int {
	r := make([]int, g.N)
	for v := range r {
		r[v] = g.Deg(v)
	}
	return r
}

// M returns the number of edges.
func (g *G) M() int {
	m := 0
	for i := 0; i < g.N; i++ {
		for j := 0; j < i; j++ {
			if g.A[i][j] {
				m++
			}
		}
	}
	return m
}

// Edges lists the edges as pairs (i, j) with i < j, ordered by j then i (the order of the
// packed lower triangle 01, 02, 12, 03, ...).
func (g *G) Edges() [][2]int {
	r := [][2]int{}
	for j := 0; j < g.N; j++ {
		for i := 0; i < j; i++ {
			if g.A[i][j] {
				r = append(r, [2]int{i, j})
			}
		}
	}
	return r
}

// Copy returns an independent copy.
func (g *G) Copy() *G {
	h := New(g.N)
	for i := range g.A {
		copy(h.A[i], g.A[i])
	}
	return h
}

// Induced returns the graph h on len(V) vertices with h[i][j] = g[V[i]][V[j]]
// (with len(V) == N and V a permutation this is a relabelling).
func (g *G) Induced(V []int) *G {
	h := New(len(V))
	for i := range V {
		for j := range V {
			if i != j && g.A[V[i]][V[j]] {
				h.A[i][j] = true
			}
		}
	}
	return h
}

// Equal reports equality as labelled graphs.
func (g *G) Equal(h *G) bool {
	if g.N != h.N {
		return false
	}
	for i := 0; i < g.N; i++ {
		for j := 0; j < g.N; j++ {
			if g.A[i][j] != h.A[i][j] {
				return false
			}
		}
	}
	return true
}

// Complement returns the complement graph.
func (g *G) Complement() *G {
	h := New(g.N)
	for i := 0; i < g.N; i++ {
		for j := 0; j < g.N; j++ {
			if i != j && !g.A[i][j] {
				h.A[i][j] = true
			}
		}
	}
	return h
}

// AddVertex appends a vertex joined to nbrs and returns its index.
func (g *G) AddVertex(nbrs []int) int {
	n := g.N
	for i := range g.A {
		g.A[i] = append(g.A[i], false)
	}
	g.A = append(g.A, make([]bool, n+1))
	g.N = n + 1
	for _, u := range nbrs {
		g.Add(n, u)
	}
	return n
}

// RemoveVertex deletes v; vertices above v move down by one.
func (g *G) RemoveVertex(v int) {
	keep := make([]int, 0, g.N-1)
	for i := 0; i < g.N; i++ {
		if i != v {
			keep = append(keep, i)
		}
	}
	h := g.Induced(keep)
	g.N, g.A = h.N, h.A
}

// Key is a compact string identifying the labelled graph (n and the packed triangle).
func (g *G) Key() string {
	b := make([]byte, 0, g.N*(g.N-1)/2+8)
	b = append(b, fmt.Sprintf("%d:", g.N)...)
	for j := 0; j < g.N; j++ {
		for i := 0; i < j; i++ {
			if g.A[i][j] {
				b = append(b, '1')
			} else {
				b = append(b, '0')
			}
		}
	}
	return string(b)
}

// DisjointUnion returns g followed by h.
func DisjointUnion(g, h *G) *G {
	r := New(g.N + h.N)
	for _, e := range g.Edges() {
		r.Add(e[0], e[1])
	}
	for _, e := range h.Edges() {
		r.Add(g.N+e[0], g.N+e[1])
	}
	return r
}

// IsPerm reports whether p is a permutation of 0..n-1.
func IsPerm(p []int, n int) bool {
	if len(p) != n {
		return false
	}
	seen := make([]bool, n)
	for _, v := range p {
		if v < 0 || v >= n || seen[v] {
			return false
		}
		seen[v] = true
	}
	return true
}

// SortedCopy returns a sorted copy of a.
func SortedCopy(a []int) []int {
	b := append([]int{}, a...)
	sort.Ints(b)
	return b
}
