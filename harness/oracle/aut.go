package oracle

import (
	"math/big"
	"sort"
)

// Automorphism oracles.
//
// Everything is built on one existence query, auFindAut: "is there a class-preserving automorphism
// of g mapping dom[i] to img[i] for all i?". It is answered by a backtracking search over pairs of
// colourings (c1, c2) of the same graph, refined in lockstep:
//
//   - auRefine computes the coarsest stable colouring refining a given one, numbering colours by the
//     rank of the signature (old colour, sorted list of the neighbours' old colours). The numbering
//     does not depend on vertex names, so if t is an automorphism with c2[t(x)] = c1[x] for all x
//     before refining, the same holds after refining both. The same is true for individualising x
//     in c1 and t(x) in c2.
//   - Hence the invariant of the search "every automorphism we are looking for satisfies
//     c2[t(x)] = c1[x]" is maintained; a pair whose colour histograms or per-colour neighbour
//     signatures differ cannot be extended (pruning), and when c1 is discrete t is determined:
//     t(x) = the vertex with colour c1[x] in c2.
//   - Soundness does not rely on any of this: the candidate found at a leaf is returned only after
//     IsAutomorphism and the required images have been checked explicitly.
//
// Orbits need at most one query per pair (fewer thanks to union-find on the cycles of every
// automorphism found). The group order is computed with a stabiliser chain: |Aut| is the product
// over base points b_1, b_2, ... of the size of the orbit of b_i under the pointwise stabiliser of
// b_1..b_{i-1} (orbit-stabiliser theorem); v is in that orbit iff the query
// "b_1->b_1, ..., b_{i-1}->b_{i-1}, b_i->v" succeeds. The group is never enumerated.

// auCtx is the per-call context (no shared state).
type auCtx struct {
	g     *G
	n     int
	adj   [][]int
	class []int // nil = ignore
}

func auNew(g *G, class []int) *auCtx {
	if class != nil && len(class) != g.N {
		panic("oracle: len(class) != g.N")
	}
	a := &auCtx{g: g, n: g.N, class: class}
	a.adj = make([][]int, g.N)
	for v := range a.adj {
		a.adj[v] = g.Nbrs(v)
	}
	return a
}

// IsAutomorphism reports whether p (a permutation of 0..n-1, p[v] = image of v) is an automorphism
// of g that preserves class (nil = ignore).
func IsAutomorphism(g *G, p []int, class []int) bool {
	n := g.N
	if !IsPerm(p, n) {
		return false
	}
	if class != nil {
		if len(class) != n {
			panic("oracle.IsAutomorphism: len(class) != g.N")
		}
		for v := 0; v < n; v++ {
			if class[p[v]] != class[v] {
				return false
			}
		}
	}
	for u := 0; u < n; u++ {
		for v := 0; v < n; v++ {
			if g.A[u][v] != g.A[p[u]][p[v]] {
				return false
			}
		}
	}
	return true
}

func auCmpInts(a, b []int) int {
	for i := 0; i < len(a) && i < len(b); i++ {
		if a[i] != b[i] {
			if a[i] < b[i] {
				return -1
			}
			return 1
		}
	}
	switch {
	case len(a) < len(b):
		return -1
	case len(a) > len(b):
		return 1
	}
	return 0
}

// auSig returns (col[v], sorted colours of the neighbours of v).
func (a *auCtx) auSig(col []int, v int) []int {
	s := make([]int, 0, len(a.adj[v])+1)
	for _, u := range a.adj[v] {
		s = append(s, col[u])
	}
	sort.Ints(s)
	return append([]int{col[v]}, s...)
}

func auCount(col []int) int {
	seen := map[int]bool{}
	for _, c := range col {
		seen[c] = true
	}
	return len(seen)
}

// auRefine returns the coarsest stable colouring refining col (arbitrary integer colours, compared
// by value), with colours 0..k-1 numbered by signature rank as described above.
func (a *auCtx) auRefine(col []int) []int {
	n := a.n
	col = append([]int{}, col...)
	k := auCount(col)
	for {
		sigs := make([][]int, n)
		ord := make([]int, n)
		for v := 0; v < n; v++ {
			sigs[v] = a.auSig(col, v)
			ord[v] = v
		}
		sort.SliceStable(ord, func(i, j int) bool { return auCmpInts(sigs[ord[i]], sigs[ord[j]]) < 0 })
		nc := make([]int, n)
		nk := 0
		for i := 0; i < n; i++ {
			if i > 0 && auCmpInts(sigs[ord[i-1]], sigs[ord[i]]) != 0 {
				nk++
			}
			nc[ord[i]] = nk
		}
		if n > 0 {
			nk++
		}
		// nc refines col (the old colour leads the signature) and is numbered 0..nk-1. If the
		// number of colours did not grow the partition is stable; nc is col renumbered by rank.
		col = nc
		if nk == k {
			return col
		}
		k = nk
	}
}

// auIndiv returns col (colours 0..k-1) with v moved to a new colour just before the rest of its
// cell; the result is not normalised (auRefine does that).
func auIndiv(col []int, v int) []int {
	nc := make([]int, len(col))
	for u, c := range col {
		nc[u] = 2*c + 1
	}
	nc[v] = 2 * col[v]
	return nc
}

// auInitial is the refined starting colouring: rank-free, the class values themselves are used as
// initial colours (auRefine compares them by value).
func (a *auCtx) auInitial() []int {
	col := make([]int, a.n)
	if a.class != nil {
		copy(col, a.class)
	}
	return a.auRefine(col)
}

// auCompatible reports whether the stable colourings c1 and c2 have the same number of vertices of
// each colour and the same neighbour signature for each colour: necessary for the existence of an
// automorphism t with c2[t(x)] = c1[x].
func (a *auCtx) auCompatible(c1, c2 []int) bool {
	n := a.n
	h1 := make([]int, n)
	h2 := make([]int, n)
	r1 := make([]int, n) // a representative of each colour, -1 if unused
	r2 := make([]int, n)
	for i := range r1 {
		r1[i], r2[i] = -1, -1
	}
	for v := n - 1; v >= 0; v-- {
		h1[c1[v]]++
		h2[c2[v]]++
		r1[c1[v]] = v
		r2[c2[v]] = v
	}
	for c := 0; c < n; c++ {
		if h1[c] != h2[c] {
			return false
		}
		if h1[c] > 0 && auCmpInts(a.auSig(c1, r1[c]), a.auSig(c2, r2[c])) != 0 {
			return false
		}
	}
	return true
}

// auTarget returns the first cell of smallest size among the non-singleton cells of col
// (colours 0..k-1), or -1 if col is discrete.
func auTarget(col []int) int {
	size := make([]int, len(col))
	for _, c := range col {
		size[c]++
	}
	t := -1
	for c, s := range size {
		if s > 1 && (t < 0 || s < size[t]) {
			t = c
		}
	}
	return t
}

// auExtend searches for an automorphism t with c2[t(x)] = c1[x] for all x and t(dom[i]) = img[i].
// c1 and c2 must be stable colourings obtained from the initial colouring by the same sequence of
// individualise+refine steps (with possibly different vertices).
func (a *auCtx) auExtend(c1, c2 []int, dom, img []int) []int {
	if !a.auCompatible(c1, c2) {
		return nil
	}
	t := auTarget(c1)
	if t < 0 {
		inv2 := make([]int, a.n)
		for v, c := range c2 {
			inv2[c] = v
		}
		p := make([]int, a.n)
		for v, c := range c1 {
			p[v] = inv2[c]
		}
		if !IsAutomorphism(a.g, p, a.class) {
			return nil
		}
		for i := range dom {
			if p[dom[i]] != img[i] {
				return nil
			}
		}
		return p
	}
	x := -1
	for v, c := range c1 {
		if c == t {
			x = v
			break
		}
	}
	d1 := a.auRefine(auIndiv(c1, x))
	for y := 0; y < a.n; y++ {
		if c2[y] != t {
			continue
		}
		if p := a.auExtend(d1, a.auRefine(auIndiv(c2, y)), dom, img); p != nil {
			return p
		}
	}
	return nil
}

// auFindAut returns a class-preserving automorphism of g mapping dom[i] to img[i] for every i, or
// nil if there is none.
func (a *auCtx) auFindAut(dom, img []int) []int {
	if len(dom) != len(img) {
		panic("oracle: auFindAut: len(dom) != len(img)")
	}
	c1 := a.auInitial()
	c2 := append([]int{}, c1...)
	for i := range dom {
		if c1[dom[i]] != c2[img[i]] {
			return nil
		}
		c1 = a.auRefine(auIndiv(c1, dom[i]))
		c2 = a.auRefine(auIndiv(c2, img[i]))
		if !a.auCompatible(c1, c2) {
			return nil
		}
	}
	return a.auExtend(c1, c2, dom, img)
}

// AutOrbits returns, for every vertex v, the smallest vertex in v's orbit under the automorphism
// group of g restricted to automorphisms preserving class (class may be nil = all one class).
func AutOrbits(g *G, class []int) []int {
	a := auNew(g, class)
	n := g.N
	c0 := a.auInitial()
	// Union-find whose root is always the smallest element of the set.
	parent := make([]int, n)
	for i := range parent {
		parent[i] = i
	}
	var find func(int) int
	find = func(x int) int {
		for parent[x] != x {
			x = parent[x]
		}
		return x
	}
	union := func(x, y int) {
		x, y = find(x), find(y)
		if x < y {
			parent[y] = x
		} else if y < x {
			parent[x] = y
		}
	}
	for u := 0; u < n; u++ {
		if find(u) != u {
			continue // u belongs to the orbit of a smaller vertex, already complete
		}
		for v := u + 1; v < n; v++ {
			// Skip v if it is already known to be in u's orbit, or known to be in the (complete)
			// orbit of a vertex smaller than u, or distinguished from u by colour refinement.
			if find(v) <= u || c0[v] != c0[u] {
				continue
			}
			if p := a.auFindAut([]int{u}, []int{v}); p != nil {
				for x := 0; x < n; x++ {
					union(x, p[x])
				}
			}
		}
	}
	r := make([]int, n)
	for v := range r {
		r[v] = find(v)
	}
	return r
}

// auChain computes |Aut| and a strong generating set (the transversal elements found) by the
// stabiliser chain described at the top of the file.
func auChain(g *G, class []int) (*big.Int, [][]int) {
	a := auNew(g, class)
	order := big.NewInt(1)
	var gens [][]int
	var base []int
	c := a.auInitial()
	for {
		// c = initial colouring with the base points individualised in turn. If it is discrete
		// the pointwise stabiliser of the base is trivial (it preserves c).
		t := auTarget(c)
		if t < 0 {
			break
		}
		b := -1
		for v, cv := range c {
			if cv == t {
				b = v
				break
			}
		}
		size := int64(1) // b itself
		dom := append(append([]int{}, base...), b)
		for v := 0; v < a.n; v++ {
			if v == b || c[v] != t {
				continue // images of b under the stabiliser of the base lie in b's cell of c
			}
			img := append(append([]int{}, base...), v)
			if p := a.auFindAut(dom, img); p != nil {
				size++
				gens = append(gens, p)
			}
		}
		order.Mul(order, big.NewInt(size))
		base = append(base, b)
		c = a.auRefine(auIndiv(c, b))
	}
	return order, gens
}

// AutOrder returns |Aut(g)| (class-preserving) as a *big.Int.
func AutOrder(g *G, class []int) *big.Int {
	o, _ := auChain(g, class)
	return o
}

// auGenerators returns automorphisms generating the class-preserving automorphism group of g
// (possibly none, for the trivial group).
func auGenerators(g *G, class []int) [][]int {
	_, gens := auChain(g, class)
	return gens
}
