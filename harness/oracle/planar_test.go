package oracle

import (
	"bufio"
	"fmt"
	"math/rand"
	"os"
	"strconv"
	"strings"
	"sync"
	"testing"
	"time"
)

// ---------------------------------------------------------------------------------------------
// graph builders used by the tests

func plComplete(n int) *G {
	g := New(n)
	for i := 0; i < n; i++ {
		for j := 0; j < i; j++ {
			g.Add(i, j)
		}
	}
	return g
}

func plCompleteBipartite(a, b int) *G {
	g := New(a + b)
	for i := 0; i < a; i++ {
		for j := 0; j < b; j++ {
			g.Add(i, a+j)
		}
	}
	return g
}

func plCycle(n int) *G {
	g := New(n)
	for i := 0; i < n; i++ {
		g.Add(i, (i+1)%n)
	}
	return g
}

func plPathGraph(n int) *G {
	g := New(n)
	for i := 0; i+1 < n; i++ {
		g.Add(i, i+1)
	}
	return g
}

// plGenPetersen is the generalised Petersen graph GP(n, k).
func plGenPetersen(n, k int) *G {
	g := New(2 * n)
	for i := 0; i < n; i++ {
		g.Add(i, (i+1)%n)
		g.Add(i, n+i)
		g.Add(n+i, n+(i+k)%n)
	}
	return g
}

func plHypercube(d int) *G {
	g := New(1 << d)
	for v := 0; v < 1<<d; v++ {
		for b := 0; b < d; b++ {
			g.Add(v, v^(1<<b))
		}
	}
	return g
}

func plGrid(r, c int) *G {
	g := New(r * c)
	for i := 0; i < r; i++ {
		for j := 0; j < c; j++ {
			if i+1 < r {
				g.Add(i*c+j, (i+1)*c+j)
			}
			if j+1 < c {
				g.Add(i*c+j, i*c+j+1)
			}
		}
	}
	return g
}

func plOctahedron() *G {
	g := plComplete(6)
	g.Del(0, 1)
	g.Del(2, 3)
	g.Del(4, 5)
	return g
}

func plIcosahedron() *G {
	g := New(12)
	for i := 0; i < 5; i++ {
		u, un := 1+i, 1+(i+1)%5
		l, ln := 6+i, 6+(i+1)%5
		g.Add(0, u)
		g.Add(u, un)
		g.Add(u, l)
		g.Add(u, ln)
		g.Add(l, ln)
		g.Add(11, l)
	}
	return g
}

func plMoebiusLadder(n int) *G { // n even: cycle C_n plus the n/2 diameters
	g := plCycle(n)
	for i := 0; i < n/2; i++ {
		g.Add(i, i+n/2)
	}
	return g
}

// plSubdivide returns g with the edge uv replaced by a path u-w-v through a new vertex w.
func plSubdivide(g *G, u, v int) *G {
	if !g.Has(u, v) {
		panic("plSubdivide: not an edge")
	}
	h := g.Copy()
	h.Del(u, v)
	h.AddVertex([]int{u, v})
	return h
}

// plSubdivideAll subdivides every edge of g times times.
func plSubdivideAll(g *G, times int) *G {
	h := g
	for _, e := range g.Edges() {
		u, v := e[0], e[1]
		for t := 0; t < times; t++ {
			h = plSubdivide(h, u, v)
			u = h.N - 1 // keep subdividing the piece next to v
		}
	}
	return h
}

// plGlue identifies vertex a of g with vertex b of h (a cut vertex of the result).
func plGlue(g *G, a int, h *G, b int) *G {
	r := New(g.N + h.N - 1)
	for _, e := range g.Edges() {
		r.Add(e[0], e[1])
	}
	mp := func(x int) int {
		switch {
		case x == b:
			return a
		case x < b:
			return g.N + x
		default:
			return g.N + x - 1
		}
	}
	for _, e := range h.Edges() {
		r.Add(mp(e[0]), mp(e[1]))
	}
	return r
}

// plTriangulation builds a pseudo-random maximal planar graph on n >= 3 vertices: stack vertices
// into random faces, then perform random edge flips (each flip keeps the graph a simple
// triangulation of the sphere).
func plTriangulation(n int, rng *rand.Rand) *G {
	g := New(n)
	g.Add(0, 1)
	g.Add(1, 2)
	g.Add(0, 2)
	if n == 3 {
		return g
	}
	tris := [][3]int{{0, 1, 2}, {0, 2, 1}}
	for v := 3; v < n; v++ {
		i := rng.Intn(len(tris))
		t := tris[i]
		tris[i] = [3]int{t[0], t[1], v}
		tris = append(tris, [3]int{t[1], t[2], v}, [3]int{t[2], t[0], v})
		g.Add(v, t[0])
		g.Add(v, t[1])
		g.Add(v, t[2])
	}
	third := func(t [3]int, u, v int) int {
		for _, x := range t {
			if x != u && x != v {
				return x
			}
		}
		panic("unreachable")
	}
	has := func(t [3]int, u, v int) bool {
		cu, cv := false, false
		for _, x := range t {
			cu = cu || x == u
			cv = cv || x == v
		}
		return cu && cv
	}
	for f := 0; f < 3*n; f++ {
		es := g.Edges()
		e := es[rng.Intn(len(es))]
		u, v := e[0], e[1]
		var idx []int
		for i, t := range tris {
			if has(t, u, v) {
				idx = append(idx, i)
			}
		}
		if len(idx) != 2 {
			panic(fmt.Sprintf("plTriangulation: edge on %d faces", len(idx)))
		}
		a, b := third(tris[idx[0]], u, v), third(tris[idx[1]], u, v)
		if a == b || g.Has(a, b) {
			continue
		}
		g.Del(u, v)
		g.Add(a, b)
		tris[idx[0]] = [3]int{a, b, u}
		tris[idx[1]] = [3]int{a, b, v}
	}
	if n >= 3 && g.M() != 3*n-6 {
		panic("plTriangulation: wrong edge count")
	}
	return g
}

func plRandPerm(n int, rng *rand.Rand) []int { return rng.Perm(n) }

// plRandomGraph returns a random graph with n vertices and m edges.
func plRandomGraph(n, m int, rng *rand.Rand) *G {
	g := New(n)
	max := n * (n - 1) / 2
	if m > max {
		m = max
	}
	for g.M() < m {
		g.Add(rng.Intn(n), rng.Intn(n))
	}
	return g
}

// ---------------------------------------------------------------------------------------------
// 1. known graphs

func TestPlanarKnownGraphs(t *testing.T) {
	k5me := plComplete(5)
	k5me.Del(0, 1)
	k33me := plCompleteBipartite(3, 3)
	k33me.Del(0, 3)

	forest := DisjointUnion(DisjointUnion(plPathGraph(7), plCompleteBipartite(1, 6)), New(3))
	rng := rand.New(rand.NewSource(7))
	tree := New(60)
	for v := 1; v < 60; v++ {
		tree.Add(v, rng.Intn(v))
	}

	// K5 with one edge replaced by a long path through otherwise isolated vertices
	k5sub1 := plSubdivide(plSubdivide(plComplete(5), 0, 1), 0, 5)

	// many blocks: chain of K4's glued at cut vertices, with a K3,3 glued in the middle or not
	chain := plComplete(4)
	for i := 0; i < 10; i++ {
		chain = plGlue(chain, chain.N-1, plComplete(4), 0)
	}
	chainBad := plGlue(chain, 17, plCompleteBipartite(3, 3), 2)
	chainBad = plGlue(chainBad, chainBad.N-1, plOctahedron(), 0)

	// K5 with one vertex split into the edge 45 (contracting 45 gives K5 back): 12 = 3n-6 edges,
	// non-planar although it contains no subdivision of K5
	k5split := New(6)
	for i := 0; i < 4; i++ {
		for j := 0; j < i; j++ {
			k5split.Add(i, j)
		}
	}
	k5split.Add(4, 5)
	k5split.Add(4, 0)
	k5split.Add(4, 1)
	k5split.Add(5, 2)
	k5split.Add(5, 3)
	k5split.Add(4, 2)

	cases := []struct {
		name string
		g    *G
		want bool
	}{
		{"empty0", New(0), true},
		{"K1", New(1), true},
		{"K2", plComplete(2), true},
		{"E2", New(2), true},
		{"K3", plComplete(3), true},
		{"K4", plComplete(4), true},
		{"K5", plComplete(5), false},
		{"K6", plComplete(6), false},
		{"K7", plComplete(7), false},
		{"K33", plCompleteBipartite(3, 3), false},
		{"K34", plCompleteBipartite(3, 4), false},
		{"K2_10", plCompleteBipartite(2, 10), true},
		{"K1_10", plCompleteBipartite(1, 10), true},
		{"K5-e", k5me, true},
		{"K33-e", k33me, true},
		{"Petersen", plGenPetersen(5, 2), false},
		{"Q2", plHypercube(2), true},
		{"Q3", plHypercube(3), true},
		{"Q4", plHypercube(4), false},
		{"octahedron", plOctahedron(), true},
		{"icosahedron", plIcosahedron(), true},
		{"dodecahedron", plGenPetersen(10, 2), true},
		{"Desargues", plGenPetersen(10, 3), false},
		{"prism7", plGenPetersen(7, 1), true},
		{"MoebiusKantor", plGenPetersen(8, 3), false},
		{"Duerer", plGenPetersen(6, 2), true},
		{"grid1x9", plGrid(1, 9), true},
		{"grid3x3", plGrid(3, 3), true},
		{"grid7x9", plGrid(7, 9), true},
		{"grid15x20", plGrid(15, 20), true},
		{"Wagner", plMoebiusLadder(8), false},
		{"M6=K33", plMoebiusLadder(6), false},
		{"M10", plMoebiusLadder(10), false},
		{"subK5", plSubdivideAll(plComplete(5), 1), false},
		{"subK5x3", plSubdivideAll(plComplete(5), 3), false},
		{"subK5one", k5sub1, false},
		{"subK33", plSubdivideAll(plCompleteBipartite(3, 3), 1), false},
		{"subK33x2", plSubdivideAll(plCompleteBipartite(3, 3), 2), false},
		{"subK4x3", plSubdivideAll(plComplete(4), 3), true},
		{"subIcosa", plSubdivideAll(plIcosahedron(), 2), true},
		{"tree", tree, true},
		{"forest", forest, true},
		{"C3", plCycle(3), true},
		{"C5", plCycle(5), true},
		{"C50", plCycle(50), true},
		{"edgeless9", New(9), true},
		{"K4+K4", DisjointUnion(plComplete(4), plComplete(4)), true},
		{"K4+K5", DisjointUnion(plComplete(4), plComplete(5)), false},
		{"K33+tree", DisjointUnion(tree, plCompleteBipartite(3, 3)), false},
		{"ico+dodeca", DisjointUnion(plIcosahedron(), plGenPetersen(10, 2)), true},
		{"ico+Petersen", DisjointUnion(plIcosahedron(), plGenPetersen(5, 2)), false},
		{"K4.K4", plGlue(plComplete(4), 0, plComplete(4), 3), true},
		{"K4.K5", plGlue(plComplete(4), 2, plComplete(5), 0), false},
		{"K5-e.K5-e", plGlue(k5me, 0, k5me, 1), true},
		{"ico.ico", plGlue(plIcosahedron(), 3, plIcosahedron(), 7), true},
		{"ico.K33", plGlue(plIcosahedron(), 3, plCompleteBipartite(3, 3), 5), false},
		{"chainK4", chain, true},
		{"chainK4+K33", chainBad, false},
		{"K5split", k5split, false},
	}
	for _, c := range cases {
		if got := Planar(c.g); got != c.want {
			t.Errorf("%s: Planar = %v, want %v", c.name, got, c.want)
		}
	}

	// two K5-e sharing the missing edge's endpoints are planar, but adding the edge 01 creates
	// K5; an octahedron plus any edge is non-planar (maximal planar).
	for i := 0; i < 6; i++ {
		for j := 0; j < i; j++ {
			o := plOctahedron()
			if o.Has(i, j) {
				continue
			}
			o.Add(i, j)
			if Planar(o) {
				t.Errorf("octahedron + %d%d reported planar", i, j)
			}
		}
	}
	// every maximal planar graph plus a missing edge is non-planar; minus any edge planar
	ico := plIcosahedron()
	for i := 0; i < 12; i++ {
		for j := 0; j < i; j++ {
			h := ico.Copy()
			if h.Has(i, j) {
				h.Del(i, j)
				if !Planar(h) {
					t.Errorf("icosahedron - %d%d reported non-planar", i, j)
				}
			} else {
				h.Add(i, j)
				if Planar(h) {
					t.Errorf("icosahedron + %d%d reported planar", i, j)
				}
			}
		}
	}
}

// ---------------------------------------------------------------------------------------------
// 2. exhaustive / sampled comparison with a brute-force Wagner minor test

// plBrute decides non-planarity of small graphs straight from Wagner's theorem: G is non-planar
// iff K5 or K3,3 is a minor of G. Graphs are packed lower triangles (bit of edge ij, i<j, is
// j(j-1)/2+i). For n > |H| a graph has an H-minor iff some single vertex deletion or single edge
// contraction has one (either a vertex is unused by the model, or a branch set has an internal
// edge); for n = |H| a minor is a subgraph.
type plBrute struct {
	memo []map[uint32]bool
}

func plNewBrute() *plBrute {
	b := &plBrute{memo: make([]map[uint32]bool, 10)}
	for i := range b.memo {
		b.memo[i] = map[uint32]bool{}
	}
	return b
}

func plBit(i, j int) uint32 {
	if i > j {
		i, j = j, i
	}
	return 1 << uint(j*(j-1)/2+i)
}

func plMaskOf(g *G) uint32 {
	var m uint32
	for _, e := range g.Edges() {
		m |= plBit(e[0], e[1])
	}
	return m
}

func plFromMask(n int, mask uint32) *G {
	g := New(n)
	for j := 0; j < n; j++ {
		for i := 0; i < j; i++ {
			if mask&plBit(i, j) != 0 {
				g.Add(i, j)
			}
		}
	}
	return g
}

// plMinorStep returns the masks (on n-1 vertices) of all single vertex deletions and single edge
// contractions of the n-vertex graph mask.
func plMinorStep(n int, mask uint32) []uint32 {
	has := func(i, j int) bool { return i != j && mask&plBit(i, j) != 0 }
	var out []uint32
	// delete v
	for v := 0; v < n; v++ {
		var r uint32
		idx := func(x int) int {
			if x > v {
				return x - 1
			}
			return x
		}
		for j := 0; j < n; j++ {
			for i := 0; i < j; i++ {
				if i != v && j != v && has(i, j) {
					r |= plBit(idx(i), idx(j))
				}
			}
		}
		out = append(out, r)
	}
	// contract uv (merge v into u, then drop v)
	for v := 0; v < n; v++ {
		for u := 0; u < v; u++ {
			if !has(u, v) {
				continue
			}
			var r uint32
			idx := func(x int) int {
				if x == v {
					x = u
				}
				if x > v {
					return x - 1
				}
				return x
			}
			for j := 0; j < n; j++ {
				for i := 0; i < j; i++ {
					if has(i, j) && idx(i) != idx(j) {
						r |= plBit(idx(i), idx(j))
					}
				}
			}
			out = append(out, r)
		}
	}
	return out
}

func (b *plBrute) nonPlanar(n int, mask uint32) bool {
	if n < 5 {
		return false
	}
	if r, ok := b.memo[n][mask]; ok {
		return r
	}
	r := false
	if n == 5 {
		r = mask == 1<<10-1 // K5 itself
	} else {
		if n == 6 {
			// K3,3 subgraph: some split {0,x,y} | rest with all 9 cross edges
			for x := 1; x < 6 && !r; x++ {
				for y := x + 1; y < 6 && !r; y++ {
					A := []int{0, x, y}
					var B []int
					for z := 1; z < 6; z++ {
						if z != x && z != y {
							B = append(B, z)
						}
					}
					all := true
					for _, p := range A {
						for _, q := range B {
							if mask&plBit(p, q) == 0 {
								all = false
							}
						}
					}
					r = all
				}
			}
		}
		if !r {
			for _, s := range plMinorStep(n, mask) {
				if b.nonPlanar(n-1, s) {
					r = true
					break
				}
			}
		}
	}
	b.memo[n][mask] = r
	return r
}

func TestPlanarBruteSelfCheck(t *testing.T) {
	b := plNewBrute()
	check := func(name string, g *G, want bool) {
		if got := !b.nonPlanar(g.N, plMaskOf(g)); got != want {
			t.Errorf("brute force on %s: planar = %v, want %v", name, got, want)
		}
	}
	check("K5", plComplete(5), false)
	check("K33", plCompleteBipartite(3, 3), false)
	check("octahedron", plOctahedron(), true)
	check("Wagner", plMoebiusLadder(8), false)
	check("Q3", plHypercube(3), true)
	check("K4+K4", DisjointUnion(plComplete(4), plComplete(4)), true)
	check("subK33", plSubdivide(plSubdivide(plCompleteBipartite(3, 3), 0, 3), 1, 4), false)
	k := plComplete(5)
	k.Del(0, 1)
	check("K5-e", k, true)
}

func TestPlanarExhaustiveSmall(t *testing.T) {
	b := plNewBrute()
	// number of labelled planar graphs on n vertices (OEIS A066537)
	wantCount := map[int]int{0: 1, 1: 1, 2: 2, 3: 8, 4: 64, 5: 1023, 6: 32071}
	for n := 0; n <= 6; n++ {
		bits := uint(n * (n - 1) / 2)
		planar := 0
		for mask := uint32(0); mask < 1<<bits; mask++ {
			g := plFromMask(n, mask)
			got := Planar(g)
			want := !b.nonPlanar(n, mask)
			if got != want {
				t.Fatalf("n=%d mask=%b edges=%v: Planar = %v, brute force = %v", n, mask, g.Edges(), got, want)
			}
			if got {
				planar++
			}
		}
		if planar != wantCount[n] {
			t.Errorf("n=%d: %d labelled planar graphs, want %d", n, planar, wantCount[n])
		}
	}
}

func TestPlanarSampled7and8(t *testing.T) {
	b := plNewBrute()
	rng := rand.New(rand.NewSource(20260927))
	for _, cfg := range []struct{ n, count, mlo, mhi int }{
		{7, 20000, 9, 15},
		{8, 3000, 9, 18},
	} {
		np := 0
		for it := 0; it < cfg.count; it++ {
			m := cfg.mlo + rng.Intn(cfg.mhi-cfg.mlo+1)
			g := plRandomGraph(cfg.n, m, rng)
			got := Planar(g)
			want := !b.nonPlanar(cfg.n, plMaskOf(g))
			if got != want {
				t.Fatalf("n=%d edges=%v: Planar = %v, brute force = %v", cfg.n, g.Edges(), got, want)
			}
			if got {
				np++
			}
		}
		t.Logf("n=%d: %d graphs, %d planar, %d non-planar", cfg.n, cfg.count, np, cfg.count-np)
		if np < cfg.count/10 || np > cfg.count*9/10 {
			t.Errorf("n=%d: sample is unbalanced (%d planar of %d)", cfg.n, np, cfg.count)
		}
	}
}

// ---------------------------------------------------------------------------------------------
// 3. corpus labelled by networkx.check_planarity

// plReadCorpus parses lines "n m planar(0/1) u1 v1 u2 v2 ...".
func plReadCorpus(t *testing.T, path string, fn func(line int, g *G, want bool)) int {
	f, err := os.Open(path)
	if err != nil {
		t.Fatalf("open corpus: %v", err)
	}
	defer f.Close()
	sc := bufio.NewScanner(f)
	sc.Buffer(make([]byte, 1<<20), 1<<24)
	line, count := 0, 0
	for sc.Scan() {
		line++
		txt := strings.TrimSpace(sc.Text())
		if txt == "" || strings.HasPrefix(txt, "#") {
			continue
		}
		fs := strings.Fields(txt)
		nums := make([]int, len(fs))
		for i, s := range fs {
			nums[i], err = strconv.Atoi(s)
			if err != nil {
				t.Fatalf("%s:%d: %v", path, line, err)
			}
		}
		if len(nums) < 3 || len(nums) != 3+2*nums[1] {
			t.Fatalf("%s:%d: malformed line", path, line)
		}
		g := New(nums[0])
		for i := 0; i < nums[1]; i++ {
			g.Add(nums[3+2*i], nums[4+2*i])
		}
		if g.M() != nums[1] {
			t.Fatalf("%s:%d: repeated edge or loop", path, line)
		}
		fn(line, g, nums[2] == 1)
		count++
	}
	if err := sc.Err(); err != nil {
		t.Fatal(err)
	}
	return count
}

func plRunCorpus(t *testing.T, path string) (total, planar, bad int) {
	total = plReadCorpus(t, path, func(line int, g *G, want bool) {
		if want {
			planar++
		}
		if got := Planar(g); got != want {
			bad++
			if bad <= 20 {
				t.Errorf("%s:%d: n=%d m=%d Planar = %v, networkx = %v; edges %v", path, line, g.N, g.M(), got, want, g.Edges())
			}
		}
	})
	return
}

func TestPlanarCorpus(t *testing.T) {
	total, planar, bad := plRunCorpus(t, "testdata/planar_nx.txt")
	t.Logf("%d graphs (%d planar, %d non-planar), %d disagreements", total, planar, total-planar, bad)
	if total < 2000 || planar < total/4 || total-planar < total/4 {
		t.Errorf("corpus too small or unbalanced: %d graphs, %d planar", total, planar)
	}
}

// TestPlanarNXFile compares against a large externally generated file (same format as the
// corpus), named by ORACLE_NX_FILE. Skipped when the variable is unset.
func TestPlanarNXFile(t *testing.T) {
	path := os.Getenv("ORACLE_NX_FILE")
	if path == "" {
		t.Skip("ORACLE_NX_FILE not set")
	}
	total, planar, bad := plRunCorpus(t, path)
	t.Logf("%d graphs (%d planar, %d non-planar), %d disagreements", total, planar, total-planar, bad)
}

// ---------------------------------------------------------------------------------------------
// 4. metamorphic checks

func TestPlanarMetamorphic(t *testing.T) {
	rng := rand.New(rand.NewSource(99))
	var pool []*G
	for i := 0; i < 1500; i++ {
		n := 5 + rng.Intn(14)
		lo, hi := n-2, 3*n-6
		pool = append(pool, plRandomGraph(n, lo+rng.Intn(hi-lo+1), rng))
	}
	for i := 0; i < 600; i++ {
		// triangulation, minus a few edges, plus possibly one or two random edges
		n := 5 + rng.Intn(20)
		g := plTriangulation(n, rng)
		for d := rng.Intn(6); d > 0; d-- {
			es := g.Edges()
			e := es[rng.Intn(len(es))]
			g.Del(e[0], e[1])
		}
		for a := rng.Intn(3); a > 0; a-- {
			g.Add(rng.Intn(n), rng.Intn(n))
		}
		pool = append(pool, g)
	}
	np := 0
	for _, g := range pool {
		p := Planar(g)
		if p {
			np++
		}
		// relabelling
		perm := plRandPerm(g.N, rng)
		if Planar(g.Induced(perm)) != p {
			t.Fatalf("relabelling changed the answer: edges %v perm %v", g.Edges(), perm)
		}
		es := g.Edges()
		if len(es) == 0 {
			continue
		}
		// subdividing an edge (several times)
		h := g
		for s := 0; s < 3; s++ {
			hes := h.Edges()
			e := hes[rng.Intn(len(hes))]
			h = plSubdivide(h, e[0], e[1])
			if Planar(h) != p {
				t.Fatalf("subdividing changed the answer (was %v): n=%d edges %v -> %v", p, g.N, es, h.Edges())
			}
		}
		// contracting an edge of a planar graph / deleting an edge of a planar graph
		e := es[rng.Intn(len(es))]
		d := g.Copy()
		d.Del(e[0], e[1])
		if p && !Planar(d) {
			t.Fatalf("deleting %v from planar graph gave non-planar: n=%d edges %v", e, g.N, es)
		}
		if !p {
			// adding an edge / a pendant vertex / an isolated vertex to a non-planar graph
			a := g.Copy()
			a.Add(rng.Intn(g.N), rng.Intn(g.N))
			a.AddVertex([]int{rng.Intn(g.N)})
			a.AddVertex(nil)
			if Planar(a) {
				t.Fatalf("supergraph of non-planar graph reported planar: n=%d edges %v", g.N, es)
			}
		} else {
			// a vertex of degree <= 2 can always be added to a planar graph when its two
			// neighbours are adjacent; a pendant vertex always
			a := g.Copy()
			a.AddVertex([]int{e[0], e[1]})
			a.AddVertex([]int{rng.Intn(g.N)})
			if !Planar(a) {
				t.Fatalf("planar graph + degree-2 vertex over an edge reported non-planar: n=%d edges %v", g.N, es)
			}
			c := g.Copy() // contract e: minors of planar graphs are planar
			for _, w := range c.Nbrs(e[1]) {
				c.Add(e[0], w)
			}
			c.RemoveVertex(e[1])
			if !Planar(c) {
				t.Fatalf("contracting %v in planar graph gave non-planar: n=%d edges %v", e, g.N, es)
			}
		}
	}
	t.Logf("%d graphs, %d planar", len(pool), np)
	if np < len(pool)/5 || np > len(pool)*4/5 {
		t.Errorf("pool unbalanced: %d planar of %d", np, len(pool))
	}
}

// Triangulations are planar, lose planarity with any extra edge, and every subgraph is planar.
func TestPlanarTriangulations(t *testing.T) {
	rng := rand.New(rand.NewSource(5))
	for it := 0; it < 300; it++ {
		n := 5 + rng.Intn(40)
		g := plTriangulation(n, rng)
		if !Planar(g) {
			t.Fatalf("triangulation reported non-planar: n=%d edges %v", n, g.Edges())
		}
		// random subgraph
		s := g.Copy()
		for _, e := range g.Edges() {
			if rng.Intn(3) == 0 {
				s.Del(e[0], e[1])
			}
		}
		if !Planar(s) {
			t.Fatalf("subgraph of triangulation reported non-planar: n=%d edges %v", n, s.Edges())
		}
		// add one missing edge: m = 3n-5
		for tries := 0; tries < 100; tries++ {
			u, v := rng.Intn(n), rng.Intn(n)
			if u != v && !g.Has(u, v) {
				h := g.Copy()
				h.Add(u, v)
				if Planar(h) {
					t.Fatalf("triangulation + edge reported planar")
				}
				// swap: remove a far-away edge so that the count test does not decide
				es := g.Edges()
				e := es[rng.Intn(len(es))]
				h.Del(e[0], e[1])
				_ = Planar(h) // either answer possible; must not panic
				break
			}
		}
	}
}

// ---------------------------------------------------------------------------------------------
// size, speed, concurrency

func TestPlanarLarge(t *testing.T) {
	rng := rand.New(rand.NewSource(300))
	g := plTriangulation(300, rng)
	start := time.Now()
	ok := Planar(g)
	el := time.Since(start)
	t.Logf("300-vertex triangulation (m=%d): planar=%v in %v", g.M(), ok, el)
	if !ok {
		t.Errorf("300-vertex triangulation reported non-planar")
	}
	if el > time.Second {
		t.Errorf("too slow: %v", el)
	}

	// Same graph with one edge moved so that it is non-planar but still has 3n-6 edges: take a
	// vertex pair at distance >= 3 (no edge, no common neighbour); adding it to a triangulation
	// minus one unrelated edge usually stays non-planar. Decide with the subdivided-K5 plant
	// instead, to be certain: plant a subdivided K5 on a sparse planar graph.
	h := plGrid(15, 20) // 300 vertices
	corners := []int{0, 19, 280, 299, 150}
	nv := h.N
	for i := 0; i < 5; i++ {
		for j := 0; j < i; j++ {
			// path of length 3 through two new vertices
			a := h.AddVertex([]int{corners[i]})
			h.AddVertex([]int{a, corners[j]})
		}
	}
	start = time.Now()
	ok = Planar(h)
	el = time.Since(start)
	t.Logf("grid 15x20 + planted subdivided K5 (n=%d from %d, m=%d): planar=%v in %v", h.N, nv, h.M(), ok, el)
	if ok {
		t.Errorf("planted K5 subdivision reported planar")
	}
	if el > time.Second {
		t.Errorf("too slow: %v", el)
	}

	// long cycle with chords forming a big Moebius ladder: non-planar, one block, m = 1.5 n
	ml := plMoebiusLadder(300)
	start = time.Now()
	ok = Planar(ml)
	t.Logf("Moebius ladder M300: planar=%v in %v", ok, time.Since(start))
	if ok {
		t.Errorf("M300 reported planar")
	}
	// prism over C150: planar, same size
	pr := plGenPetersen(150, 1)
	start = time.Now()
	ok = Planar(pr)
	t.Logf("prism 2x150: planar=%v in %v", ok, time.Since(start))
	if !ok {
		t.Errorf("prism reported non-planar")
	}
	// a path of 100 blocks
	chain := plComplete(4)
	for i := 0; i < 99; i++ {
		chain = plGlue(chain, chain.N-1, plComplete(4), 0)
	}
	if !Planar(chain) {
		t.Errorf("chain of K4 reported non-planar")
	}
	if Planar(plGlue(chain, 150, plCompleteBipartite(3, 3), 0)) {
		t.Errorf("chain of K4 with a K33 block reported planar")
	}
}

func TestPlanarConcurrent(t *testing.T) {
	rng := rand.New(rand.NewSource(11))
	var gs []*G
	var want []bool
	for i := 0; i < 200; i++ {
		n := 6 + rng.Intn(15)
		g := plRandomGraph(n, n+rng.Intn(2*n-5), rng)
		gs = append(gs, g)
		want = append(want, Planar(g))
	}
	var wg sync.WaitGroup
	errs := make(chan string, 8)
	for w := 0; w < 8; w++ {
		wg.Add(1)
		go func() {
			defer wg.Done()
			for i, g := range gs {
				if Planar(g) != want[i] {
					errs <- fmt.Sprintf("graph %d: answer changed under concurrency", i)
					return
				}
			}
		}()
	}
	wg.Wait()
	close(errs)
	for e := range errs {
		t.Error(e)
	}
}

// Planar must not modify its argument.
func TestPlanarDoesNotMutate(t *testing.T) {
	for _, g := range []*G{plIcosahedron(), plGenPetersen(5, 2), plGrid(4, 5), plComplete(7)} {
		c := g.Copy()
		Planar(g)
		if !g.Equal(c) {
			t.Errorf("Planar modified its argument")
		}
	}
}
