package oracle

import (
	"fmt"
	"math/big"
	"math/rand"
	"testing"
)

// grClosure enumerates <gens> by breadth-first closure (right multiplication by generators);
// returns -1 if the group has more than limit elements.
func grClosure(n int, gens [][]int, limit int) int {
	key := func(p []int) string { return fmt.Sprint(p) }
	id := make([]int, n)
	for i := range id {
		id[i] = i
	}
	seen := map[string]bool{key(id): true}
	queue := [][]int{id}
	for h := 0; h < len(queue); h++ {
		for _, g := range gens {
			q := make([]int, n)
			for x := range q {
				q[x] = g[queue[h][x]]
			}
			if k := key(q); !seen[k] {
				seen[k] = true
				queue = append(queue, q)
				if len(queue) > limit {
					return -1
				}
			}
		}
	}
	return len(queue)
}

// grClosureOrbits: orbit minima from the definition, via a transitive closure of x ~ g(x).
func grClosureOrbits(n int, gens [][]int) []int {
	r := make([]int, n)
	for i := range r {
		r[i] = i
	}
	for changed := true; changed; {
		changed = false
		for _, g := range gens {
			for x := 0; x < n; x++ {
				a, b := r[x], r[g[x]]
				if a < b {
					r[g[x]] = a
					changed = true
				} else if b < a {
					r[x] = b
					changed = true
				}
			}
		}
	}
	return r
}

func grCyclePerm(n int, cycle ...int) []int {
	p := make([]int, n)
	for i := range p {
		p[i] = i
	}
	for i, x := range cycle {
		p[x] = cycle[(i+1)%len(cycle)]
	}
	return p
}

func grRange(a, b int) []int {
	var r []int
	for i := a; i < b; i++ {
		r = append(r, i)
	}
	return r
}

func grCheck(t *testing.T, name string, n int, gens [][]int) {
	t.Helper()
	want := grClosure(n, gens, 50000)
	if want < 0 {
		t.Fatalf("%s: closure too large for the test", name)
	}
	if got := GroupOrder(n, gens); got.Cmp(big.NewInt(int64(want))) != 0 {
		t.Errorf("%s: GroupOrder = %v, closure has %d elements (gens %v)", name, got, want, gens)
	}
	if got, w := GroupOrbits(n, gens), grClosureOrbits(n, gens); !auEqInts(got, w) {
		t.Errorf("%s: GroupOrbits = %v, want %v", name, got, w)
	}
}

func TestGroupSmallFamilies(t *testing.T) {
	grCheck(t, "trivial/no gens", 5, nil)
	grCheck(t, "trivial/identity", 5, [][]int{grRange(0, 5)})
	grCheck(t, "n=0", 0, nil)
	grCheck(t, "n=1", 1, [][]int{{0}})
	for n := 2; n <= 8; n++ {
		full := grCyclePerm(n, grRange(0, n)...)
		// S_n
		grCheck(t, fmt.Sprintf("S%d", n), n, [][]int{grCyclePerm(n, 0, 1), full})
		// S_n from all adjacent transpositions
		var adj [][]int
		for i := 0; i+1 < n; i++ {
			adj = append(adj, grCyclePerm(n, i, i+1))
		}
		grCheck(t, fmt.Sprintf("S%d adjacent", n), n, adj)
		// A_n from 3-cycles
		var three [][]int
		for i := 2; i < n; i++ {
			three = append(three, grCyclePerm(n, 0, 1, i))
		}
		grCheck(t, fmt.Sprintf("A%d", n), n, three)
		if n >= 3 {
			if got, want := GroupOrder(n, three), new(big.Int).Div(auFact(n), big.NewInt(2)); got.Cmp(want) != 0 {
				t.Errorf("A%d order %v, want %v", n, got, want)
			}
		}
		// cyclic
		grCheck(t, fmt.Sprintf("C%d", n), n, [][]int{full})
		// dihedral
		refl := make([]int, n)
		for i := range refl {
			refl[i] = (n - i) % n
		}
		grCheck(t, fmt.Sprintf("D%d", n), n, [][]int{full, refl})
	}
	// Cyclic groups with several cycles: order = lcm.
	grCheck(t, "C2xC3 as one element", 7, [][]int{grCyclePerm(7, 0, 1)}) // order 2
	p := grCyclePerm(12, 0, 1, 2, 3)
	q := grCyclePerm(12, 4, 5, 6, 7, 8, 9)
	pq := make([]int, 12)
	for i := range pq {
		pq[i] = q[p[i]]
	}
	grCheck(t, "lcm(4,6)", 12, [][]int{pq})
	grCheck(t, "C4 x C6", 12, [][]int{p, q})
	// Intransitive and imprimitive groups.
	grCheck(t, "S3 x S4", 7, [][]int{grCyclePerm(7, 0, 1), grCyclePerm(7, 0, 1, 2), grCyclePerm(7, 3, 4), grCyclePerm(7, 3, 4, 5, 6)})
	grCheck(t, "S2 wr S4", 8, [][]int{grCyclePerm(8, 0, 1), {2, 3, 4, 5, 6, 7, 0, 1}, {2, 3, 0, 1, 4, 5, 6, 7}})
	grCheck(t, "S3 wr S3", 9, [][]int{grCyclePerm(9, 0, 1), grCyclePerm(9, 0, 1, 2), {3, 4, 5, 6, 7, 8, 0, 1, 2}, {3, 4, 5, 0, 1, 2, 6, 7, 8}})
	// PSL(2,7) on 7 points (order 168), M11 on 11 points (7920).
	psl := [][]int{{0, 1, 2, 5, 6, 3, 4}, {1, 3, 5, 0, 2, 4, 6}} // (4,6)(5,7), (1,2,4)(3,6,5) 1-based
	grCheck(t, "PSL(2,7)", 7, psl)
	m11a := grCyclePerm(11, 0, 1, 2, 3, 4, 5, 6, 7, 8, 9, 10)
	m11b := grRange(0, 11) // (3,7,11,8)(4,10,5,6) in 1-based notation
	for _, c := range [][]int{{2, 6, 10, 7}, {3, 9, 4, 5}} {
		for i, x := range c {
			m11b[x] = c[(i+1)%4]
		}
	}
	grCheck(t, "M11", 11, [][]int{m11a, m11b})
	if got := GroupOrder(11, [][]int{m11a, m11b}); got.Cmp(big.NewInt(7920)) != 0 {
		t.Errorf("M11 order %v", got)
	}
	if got := GroupOrder(7, psl); got.Cmp(big.NewInt(168)) != 0 {
		t.Errorf("PSL(2,7) order %v", got)
	}
}

func TestGroupRandomPairs(t *testing.T) {
	r := rand.New(rand.NewSource(3))
	for n := 1; n <= 7; n++ {
		for k := 0; k < 60; k++ {
			gens := [][]int{r.Perm(n), r.Perm(n)}
			if k%3 == 0 {
				gens = gens[:1]
			}
			if k%7 == 0 {
				gens = append(gens, r.Perm(n))
			}
			grCheck(t, fmt.Sprintf("random n=%d #%d", n, k), n, gens)
		}
	}
	// Random generators with small supports on more points (intransitive, several levels).
	for k := 0; k < 40; k++ {
		n := 9 + k%4
		var gens [][]int
		for j := 0; j < 2+k%3; j++ {
			a, b, c := r.Intn(n), r.Intn(n), r.Intn(n)
			if a != b && b != c && a != c && j%2 == 0 {
				gens = append(gens, grCyclePerm(n, a, b, c))
			} else if a != b {
				gens = append(gens, grCyclePerm(n, a, b))
			}
		}
		if grClosure(n, gens, 50000) >= 0 {
			grCheck(t, fmt.Sprintf("sparse n=%d #%d", n, k), n, gens)
		}
	}
}

func TestGroupAutGenerators(t *testing.T) {
	for name, g := range map[string]*G{
		"petersen": cnPetersen(), "q3": cnHypercube(3), "q4": cnHypercube(4), "rook3x3": cnRook(3, 3),
		"c9": cnCycle(9), "k5": cnComplete(5), "k34": cnMultipartite(3, 4), "2c5": cnCopies(cnCycle(5), 2),
		"frucht": cnFrucht(), "k333": cnMultipartite(3, 3, 3), "p6": cnPath(6), "3c4": cnCopies(cnCycle(4), 3),
	} {
		gens := auGenerators(g, nil)
		grCheck(t, "Aut("+name+")", g.N, gens)
		if got, want := GroupOrder(g.N, gens), AutOrder(g, nil); got.Cmp(want) != 0 {
			t.Errorf("%s: GroupOrder(generators) = %v, AutOrder = %v", name, got, want)
		}
	}
	// Bigger: no closure, only agreement between the two independent computations.
	for name, g := range map[string]*G{
		"q5": cnHypercube(5), "k20": cnComplete(20), "k12,12": cnMultipartite(12, 12), "rook4x5": cnRook(4, 5),
		"4c5": cnCopies(cnCycle(5), 4), "3petersen": cnCopies(cnPetersen(), 3),
	} {
		gens := auGenerators(g, nil)
		if got, want := GroupOrder(g.N, gens), AutOrder(g, nil); got.Cmp(want) != 0 {
			t.Errorf("%s: GroupOrder(generators) = %v, AutOrder = %v", name, got, want)
		}
		if !auEqInts(GroupOrbits(g.N, gens), AutOrbits(g, nil)) {
			t.Errorf("%s: orbits differ", name)
		}
	}
}

func TestGroupLarge(t *testing.T) {
	for _, n := range []int{10, 16, 24, 32, 48, 64} {
		gens := [][]int{grCyclePerm(n, 0, 1), grCyclePerm(n, grRange(0, n)...)}
		if got := GroupOrder(n, gens); got.Cmp(auFact(n)) != 0 {
			t.Errorf("S%d: order %v, want %v", n, got, auFact(n))
		}
		// A_n from a 3-cycle and an (n or n-1)-cycle of even parity.
		var c []int
		if n%2 == 1 {
			c = grCyclePerm(n, grRange(0, n)...)
		} else {
			c = grCyclePerm(n, grRange(1, n)...)
		}
		if got, want := GroupOrder(n, [][]int{grCyclePerm(n, 0, 1, 2), c}), new(big.Int).Div(auFact(n), big.NewInt(2)); got.Cmp(want) != 0 {
			t.Errorf("A%d: order %v, want %v", n, got, want)
		}
		if o := GroupOrbits(n, gens); !auEqInts(o, make([]int, n)) {
			t.Errorf("S%d orbits %v", n, o)
		}
	}
	// S_32 x S_32 on 64 points, and S_2 wr S_32.
	n := 64
	a := [][]int{grCyclePerm(n, 0, 1), grCyclePerm(n, grRange(0, 32)...), grCyclePerm(n, 32, 33), grCyclePerm(n, grRange(32, 64)...)}
	if got, want := GroupOrder(n, a), auMul(auFact(32), auFact(32)); got.Cmp(want) != 0 {
		t.Errorf("S32 x S32: %v", got)
	}
	swap := make([]int, n)
	for i := range swap {
		swap[i] = (i + 32) % 64
	}
	if got, want := GroupOrder(n, append(a, swap)), auMul(auFact(32), auFact(32), big.NewInt(2)); got.Cmp(want) != 0 {
		t.Errorf("S32 wr S2: %v", got)
	}
	// Elementary abelian 2^32 on 64 points.
	var e [][]int
	for i := 0; i < 32; i++ {
		e = append(e, grCyclePerm(n, 2*i, 2*i+1))
	}
	if got, want := GroupOrder(n, e), new(big.Int).Lsh(big.NewInt(1), 32); got.Cmp(want) != 0 {
		t.Errorf("2^32: %v", got)
	}
	o := GroupOrbits(n, e)
	for i := range o {
		if o[i] != i-i%2 {
			t.Fatalf("2^32 orbits %v", o)
		}
	}
}

func TestGroupMembership(t *testing.T) {
	// A_6 contains exactly the even permutations.
	n := 6
	var three [][]int
	for i := 2; i < n; i++ {
		three = append(three, grCyclePerm(n, 0, 1, i))
	}
	c := grSchreierSims(n, three)
	cnt := 0
	cnPerms(n, func(p []int) {
		inv := 0
		for i := 0; i < n; i++ {
			for j := 0; j < i; j++ {
				if p[j] > p[i] {
					inv++
				}
			}
		}
		if c.grMember(p) != (inv%2 == 0) {
			t.Fatalf("membership of %v in A6 wrong", p)
		}
		if inv%2 == 0 {
			cnt++
		}
	})
	if cnt != 360 {
		t.Fatal("parity count")
	}
}
