package oracle

import (
	"errors"
	"fmt"
)

// Reference codecs transcribed from https://users.cecs.anu.edu.au/~bdm/data/formats.txt
// (graph6, sparse6, with nauty's ntos6 / stringtograph as the reading of the padding rules),
// the plantri/minibaum description of Multicode, and the textbook definition of Pruefer codes.

func sizeField(n int) []byte {
	switch {
	case n <= 62:
		return []byte{byte(n + 63)}
	case n <= 258047:
		return []byte{126, byte(n>>12&63) + 63, byte(n>>6&63) + 63, byte(n&63) + 63}
	default:
		return []byte{126, 126, byte(n>>30&63) + 63, byte(n>>24&63) + 63, byte(n>>18&63) + 63, byte(n>>12&63) + 63, byte(n>>6&63) + 63, byte(n&63) + 63}
	}
}

type bitWriter struct {
	out  []byte
	cur  byte
	nbit int
}

func (w *bitWriter) bit(b int) {
	w.cur = w.cur<<1 | byte(b&1)
	w.nbit++
	if w.nbit == 6 {
		w.out = append(w.out, w.cur+63)
		w.cur, w.nbit = 0, 0
	}
}

func (w *bitWriter) bits(x, k int) {
	for r := k - 1; r >= 0; r-- {
		w.bit(x >> uint(r) & 1)
	}
}

// RefGraph6 is the graph6 string of g.
func RefGraph6(g *G) string {
	w := &bitWriter{out: sizeField(g.N)}
	for j := 1; j < g.N; j++ {
		for i := 0; i < j; i++ {
			if g.A[i][j] {
				w.bit(1)
			} else {
				w.bit(0)
			}
		}
	}
	for w.nbit != 0 {
		w.bit(0)
	}
	return string(w.out)
}

func bitsFor(n int) int { // number of bits needed to write n-1 (0 for n <= 1)
	k := 0
	for x := n - 1; x > 0; x >>= 1 {
		k++
	}
	return k
}

// RefSparse6FromLists is ntos6 for a graph given by n and, for every vertex j, the ascending list of
// neighbours i <= j. It is also usable for huge sparse graphs.
func RefSparse6FromLists(n int, lower func(j int) []int) string {
	k := bitsFor(n)
	w := &bitWriter{out: append([]byte{':'}, sizeField(n)...)}
	lastj := 0
	for j := 0; j < n; j++ {
		for _, i := range lower(j) {
			if j == lastj {
				w.bit(0)
			} else {
				w.bit(1)
				if j > lastj+1 {
					w.bits(j, k)
					w.bit(0)
				}
				lastj = j
			}
			w.bits(i, k)
		}
	}
	if w.nbit != 0 {
		topbit := 6 - w.nbit // bits still free in the last byte
		if topbit >= k+1 && lastj == n-2 && n == 1<<uint(k) {
			w.bit(0)
		}
		for w.nbit != 0 {
			w.bit(1)
		}
	}
	return string(w.out)
}

// RefSparse6 is the sparse6 string of g exactly as nauty's ntos6 writes it.
func RefSparse6(g *G) string {
	return RefSparse6FromLists(g.N, func(j int) []int {
		var r []int
		for i := 0; i < j; i++ {
			if g.A[i][j] {
				r = append(r, i)
			}
		}
		return r
	})
}

// ParseSizeField reads the N(n) field at the start of s (after any ':'), returning n and the number of bytes used.
func ParseSizeField(s []byte) (n int, used int, err error) {
	if len(s) == 0 {
		return 0, 0, errors.New("empty")
	}
	for _, c := range s[:min(len(s), 8)] {
		if c < 63 || c > 126 {
			return 0, 0, errors.New("byte out of range in size field")
		}
	}
	if s[0] != 126 {
		return int(s[0] - 63), 1, nil
	}
	if len(s) >= 2 && s[1] != 126 {
		if len(s) < 4 {
			return 0, 0, errors.New("truncated size field")
		}
		return int(s[1]-63)<<12 | int(s[2]-63)<<6 | int(s[3]-63), 4, nil
	}
	if len(s) < 8 {
		return 0, 0, errors.New("truncated size field")
	}
	n = 0
	for _, c := range s[2:8] {
		n = n<<6 | int(c-63)
	}
	return n, 8, nil
}

// Sparse6Edge is one decoded pair.
type Sparse6Edge struct{ U, V int }

// RefSparse6Decode follows the format definition literally and returns every edge the stream
// describes, in order, keeping loops and repeated edges so that a caller can see them.
func RefSparse6Decode(s string) (n int, edges []Sparse6Edge, err error) {
	b := []byte(s)
	if len(b) == 0 || b[0] != ':' {
		return 0, nil, errors.New("missing ':'")
	}
	b = b[1:]
	n, used, err := ParseSizeField(b)
	if err != nil {
		return 0, nil, err
	}
	b = b[used:]
	for _, c := range b {
		if c < 63 || c > 126 {
			return 0, nil, fmt.Errorf("byte %d out of range", c)
		}
	}
	k := bitsFor(n)
	pos := 0
	total := 6 * len(b)
	read := func(cnt int) (int, bool) {
		if pos+cnt > total {
			return 0, false
		}
		x := 0
		for i := 0; i < cnt; i++ {
			bit := int(b[pos/6]-63) >> uint(5-pos%6) & 1
			x = x<<1 | bit
			pos++
		}
		return x, true
	}
	v := 0
	for {
		bb, ok := read(1)
		if !ok {
			break
		}
		x, ok := read(k)
		if !ok {
			break // incomplete pair at the end is discarded
		}
		if bb == 1 {
			v++
		}
		if x > v {
			v = x
		} else if v < n {
			edges = append(edges, Sparse6Edge{x, v})
		}
	}
	return n, edges, nil
}

// RefMulticode encodes g (n <= 255).
func RefMulticode(g *G) []byte {
	if g.N == 0 {
		return []byte{0}
	}
	out := []byte{byte(g.N)}
	for i := 0; i < g.N-1; i++ {
		for j := i + 1; j < g.N; j++ {
			if g.A[i][j] {
				out = append(out, byte(j+1))
			}
		}
		out = append(out, 0)
	}
	return out
}

// RefPruferDecode builds the labelled tree of a Pruefer code (len(code)+2 vertices).
func RefPruferDecode(code []int) *G {
	n := len(code) + 2
	g := New(n)
	deg := make([]int, n)
	for i := range deg {
		deg[i] = 1
	}
	for _, v := range code {
		deg[v]++
	}
	for _, v := range code {
		for j := 0; j < n; j++ {
			if deg[j] == 1 {
				g.Add(j, v)
				deg[j]--
				deg[v]--
				break
			}
		}
	}
	var last []int
	for j := 0; j < n; j++ {
		if deg[j] == 1 {
			last = append(last, j)
		}
	}
	if len(last) == 2 {
		g.Add(last[0], last[1])
	}
	return g
}

// RefPruferEncode returns the Pruefer code of the labelled tree g (n >= 2).
func RefPruferEncode(g *G) []int {
	h := g.Copy()
	alive := make([]bool, g.N)
	for i := range alive {
		alive[i] = true
	}
	code := []int{}
	for r := 0; r < g.N-2; r++ {
		for v := 0; v < g.N; v++ {
			if alive[v] && h.Deg(v) == 1 {
				u := h.Nbrs(v)[0]
				code = append(code, u)
				h.Del(u, v)
				alive[v] = false
				break
			}
		}
	}
	return code
}

// IsTree reports whether g is connected with n-1 edges (n >= 1).
func IsTree(g *G) bool {
	if g.N == 0 {
		return false
	}
	return g.M() == g.N-1 && len(Components(g)) == 1
}

// Components returns the connected components, each ascending, ordered by least element.
func Components(g *G) [][]int {
	seen := make([]bool, g.N)
	var out [][]int
	for s := 0; s < g.N; s++ {
		if seen[s] {
			continue
		}
		comp := []int{}
		stack := []int{s}
		seen[s] = true
		for len(stack) > 0 {
			v := stack[len(stack)-1]
			stack = stack[:len(stack)-1]
			comp = append(comp, v)
			for u := 0; u < g.N; u++ {
				if g.A[v][u] && !seen[u] {
					seen[u] = true
					stack = append(stack, u)
				}
			}
		}
		out = append(out, SortedCopy(comp))
	}
	return out
}

// ParseGraph6 decodes a well-formed graph6 string (no header); used to carry graphs compactly in cases.
func ParseGraph6(s string) (*G, error) {
	b := []byte(s)
	n, used, err := ParseSizeField(b)
	if err != nil {
		return nil, err
	}
	b = b[used:]
	need := (n*(n-1)/2 + 5) / 6
	if len(b) != need {
		return nil, fmt.Errorf("graph6 body has %d bytes, want %d", len(b), need)
	}
	g := New(n)
	pos := 0
	for j := 1; j < n; j++ {
		for i := 0; i < j; i++ {
			if b[pos/6] < 63 || b[pos/6] > 126 {
				return nil, errors.New("byte out of range")
			}
			if int(b[pos/6]-63)>>uint(5-pos%6)&1 == 1 {
				g.Add(i, j)
			}
			pos++
		}
	}
	return g, nil
}
