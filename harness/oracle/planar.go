package oracle

// Reference planarity test.
//
// The graph is split into biconnected components (blocks) with a Hopcroft-Tarjan DFS; a graph
// is planar iff each of its blocks is. Each block with at least 5 vertices and at most 3n-6
// edges is decided by the Demoucron-Malgrange-Pertuiset (DMP) path-addition algorithm:
//
//   - H starts as a cycle of the block, embedded with two faces.
//   - A fragment (bridge) of the block relative to H is either a non-embedded edge joining two
//     vertices of H, or a connected component of block-V(H) together with the edges joining it
//     to H. Its attachment vertices are its vertices in H (at least two, the block being
//     biconnected).
//   - A face is admissible for a fragment when it contains all of its attachment vertices.
//   - If some fragment has no admissible face the block is non-planar. Otherwise a fragment with
//     the fewest admissible faces is taken, a path through it between two of its attachment
//     vertices is drawn inside an admissible face (which is split in two), and the loop repeats
//     until every edge is embedded.
//
// H is always biconnected (a cycle plus ears), so every face is bounded by a simple cycle and is
// stored as the cyclic list of its vertices. Everything is deterministic and uses no shared state.

// Planar reports whether g is planar. Independent reference implementation.
func Planar(g *G) bool {
	n := g.N
	if n <= 4 {
		return true
	}
	adj := make([][]int, n)
	m := 0
	for v := 0; v < n; v++ {
		adj[v] = g.Nbrs(v)
		m += len(adj[v])
	}
	m /= 2
	if m > 3*n-6 {
		return false
	}
	for _, blk := range plBlocks(n, adj) {
		if !plBlockPlanar(blk) {
			return false
		}
	}
	return true
}

// plBlocks returns the edge sets of the biconnected components of the graph given by the
// adjacency lists adj (bridges are blocks with one edge; isolated vertices give no block).
func plBlocks(n int, adj [][]int) [][][2]int {
	disc := make([]int, n) // discovery time, 0 = not visited
	low := make([]int, n)
	var stack [][2]int
	var out [][][2]int
	t := 0
	var dfs func(v, parent int)
	dfs = func(v, parent int) {
		t++
		disc[v] = t
		low[v] = t
		for _, w := range adj[v] {
			if w == parent {
				continue // simple graph: exactly one edge to the parent
			}
			if disc[w] == 0 {
				stack = append(stack, [2]int{v, w})
				dfs(w, v)
				if low[w] < low[v] {
					low[v] = low[w]
				}
				if low[w] >= disc[v] {
					// v separates the subtree of w: pop one block.
					var blk [][2]int
					for {
						e := stack[len(stack)-1]
						stack = stack[:len(stack)-1]
						blk = append(blk, e)
						if e[0] == v && e[1] == w {
							break
						}
					}
					out = append(out, blk)
				}
			} else if disc[w] < disc[v] {
				// back edge to a proper ancestor
				stack = append(stack, [2]int{v, w})
				if disc[w] < low[v] {
					low[v] = disc[w]
				}
			}
		}
	}
	for v := 0; v < n; v++ {
		if disc[v] == 0 {
			dfs(v, -1)
		}
	}
	return out
}

// plBlockPlanar decides planarity of one biconnected component given by its edge list.
func plBlockPlanar(edges [][2]int) bool {
	// Relabel the vertices of the block 0..k-1.
	id := map[int]int{}
	for _, e := range edges {
		for _, v := range e {
			if _, ok := id[v]; !ok {
				id[v] = len(id)
			}
		}
	}
	k := len(id)
	m := len(edges)
	if k < 5 {
		return true
	}
	if m > 3*k-6 {
		return false
	}
	adj := make([][]int, k)
	for _, e := range edges {
		u, v := id[e[0]], id[e[1]]
		adj[u] = append(adj[u], v)
		adj[v] = append(adj[v], u)
	}
	return plDMP(k, m, adj)
}

// plFace is a face of the embedded subgraph: its boundary cycle and a membership table.
type plFace struct {
	cyc []int
	in  []bool
}

func plNewFace(k int, cyc []int) *plFace {
	f := &plFace{cyc: cyc, in: make([]bool, k)}
	for _, v := range cyc {
		f.in[v] = true
	}
	return f
}

// plFrag is a fragment relative to the embedded subgraph: its attachment vertices and its
// interior vertices (none for a single-edge fragment).
type plFrag struct {
	att  []int
	comp []int
}

// plFindCycle returns a cycle of the (biconnected, >= 3 vertices) graph as a vertex list.
func plFindCycle(k int, adj [][]int) []int {
	visited := make([]bool, k)
	parent := make([]int, k)
	for i := range parent {
		parent[i] = -1
	}
	var dfs func(v int) []int
	dfs = func(v int) []int {
		visited[v] = true
		for _, w := range adj[v] {
			if w == parent[v] {
				continue
			}
			if visited[w] {
				// The search stops at the first such edge, so w is an ancestor of v.
				cyc := []int{}
				for x := v; x != w; x = parent[x] {
					cyc = append(cyc, x)
				}
				return append(cyc, w)
			}
			parent[w] = v
			if c := dfs(w); c != nil {
				return c
			}
		}
		return nil
	}
	return dfs(0)
}

// plDMP runs the Demoucron-Malgrange-Pertuiset algorithm on a biconnected graph with k >= 3
// vertices and m edges given by adjacency lists.
func plDMP(k, m int, adj [][]int) bool {
	cyc := plFindCycle(k, adj)
	if cyc == nil {
		panic("oracle.Planar: internal error: block without a cycle")
	}
	inH := make([]bool, k)
	emb := make([][]bool, k) // embedded edges
	for i := range emb {
		emb[i] = make([]bool, k)
	}
	embedded := 0
	mark := func(u, v int) {
		if emb[u][v] {
			panic("oracle.Planar: internal error: edge embedded twice")
		}
		emb[u][v], emb[v][u] = true, true
		embedded++
	}
	for i, v := range cyc {
		inH[v] = true
		mark(v, cyc[(i+1)%len(cyc)])
	}
	faces := []*plFace{
		plNewFace(k, append([]int{}, cyc...)),
		plNewFace(k, append([]int{}, cyc...)),
	}

	for embedded < m {
		frags := plFragments(k, adj, inH, emb)
		if len(frags) == 0 {
			panic("oracle.Planar: internal error: edges left but no fragment")
		}
		// faces through each vertex of H
		vf := make([][]int, k)
		for fi, f := range faces {
			for _, v := range f.cyc {
				vf[v] = append(vf[v], fi)
			}
		}
		best, bestCount, bestFace := -1, 0, -1
		for i, fr := range frags {
			if len(fr.att) < 2 {
				panic("oracle.Planar: internal error: fragment with < 2 attachments in a block")
			}
			count, first := 0, -1
			for _, fi := range vf[fr.att[0]] {
				ok := true
				for _, a := range fr.att[1:] {
					if !faces[fi].in[a] {
						ok = false
						break
					}
				}
				if ok {
					if first < 0 {
						first = fi
					}
					count++
				}
			}
			if count == 0 {
				return false
			}
			if best < 0 || count < bestCount {
				best, bestCount, bestFace = i, count, first
			}
		}

		path := plFragPath(k, adj, frags[best])
		// embed the path
		for i := 0; i+1 < len(path); i++ {
			mark(path[i], path[i+1])
		}
		interior := path[1 : len(path)-1]
		for _, v := range interior {
			if inH[v] {
				panic("oracle.Planar: internal error: path interior already embedded")
			}
			inH[v] = true
		}
		// split the face
		a, b := path[0], path[len(path)-1]
		fc := faces[bestFace].cyc
		ia, ib := -1, -1
		for i, v := range fc {
			if v == a {
				ia = i
			}
			if v == b {
				ib = i
			}
		}
		if ia < 0 || ib < 0 || ia == ib {
			panic("oracle.Planar: internal error: path ends not on the chosen face")
		}
		L := len(fc)
		f1 := []int{} // a ... b along the face, then back through the path
		for i := ia; ; i = (i + 1) % L {
			f1 = append(f1, fc[i])
			if i == ib {
				break
			}
		}
		for i := len(interior) - 1; i >= 0; i-- {
			f1 = append(f1, interior[i])
		}
		f2 := []int{} // b ... a along the face, then forward through the path
		for i := ib; ; i = (i + 1) % L {
			f2 = append(f2, fc[i])
			if i == ia {
				break
			}
		}
		f2 = append(f2, interior...)
		faces[bestFace] = plNewFace(k, f1)
		faces = append(faces, plNewFace(k, f2))
	}
	return true
}

// plFragments lists the fragments of the graph relative to the embedded subgraph (vertex set
// inH, edge set emb), in a deterministic order.
func plFragments(k int, adj [][]int, inH []bool, emb [][]bool) []plFrag {
	var frags []plFrag
	// non-embedded edges between embedded vertices
	for u := 0; u < k; u++ {
		if !inH[u] {
			continue
		}
		for _, v := range adj[u] {
			if u < v && inH[v] && !emb[u][v] {
				frags = append(frags, plFrag{att: []int{u, v}})
			}
		}
	}
	// components of G - V(H)
	seen := make([]bool, k)
	attMark := make([]int, k) // attMark[v] == stamp: v already recorded for this component
	stamp := 0
	for s := 0; s < k; s++ {
		if inH[s] || seen[s] {
			continue
		}
		stamp++
		fr := plFrag{}
		stack := []int{s}
		seen[s] = true
		for len(stack) > 0 {
			v := stack[len(stack)-1]
			stack = stack[:len(stack)-1]
			fr.comp = append(fr.comp, v)
			for _, w := range adj[v] {
				if inH[w] {
					if attMark[w] != stamp {
						attMark[w] = stamp
						fr.att = append(fr.att, w)
					}
				} else if !seen[w] {
					seen[w] = true
					stack = append(stack, w)
				}
			}
		}
		frags = append(frags, fr)
	}
	return frags
}

// plFragPath returns a path through the fragment joining two distinct attachment vertices:
// first and last vertex are attachments, the interior lies in the fragment's component.
func plFragPath(k int, adj [][]int, fr plFrag) []int {
	a, b := fr.att[0], fr.att[1]
	if len(fr.comp) == 0 {
		return []int{a, b}
	}
	inComp := make([]bool, k)
	for _, v := range fr.comp {
		inComp[v] = true
	}
	prev := make([]int, k)
	for i := range prev {
		prev[i] = -1
	}
	queue := []int{}
	for _, w := range adj[a] {
		if inComp[w] && prev[w] < 0 {
			prev[w] = a
			queue = append(queue, w)
		}
	}
	for len(queue) > 0 {
		v := queue[0]
		queue = queue[1:]
		for _, w := range adj[v] {
			if w == b {
				// build b, v, ..., a and reverse
				rev := []int{b}
				for x := v; x != a; x = prev[x] {
					rev = append(rev, x)
				}
				rev = append(rev, a)
				for i, j := 0, len(rev)-1; i < j; i, j = i+1, j-1 {
					rev[i], rev[j] = rev[j], rev[i]
				}
				return rev
			}
		}
		for _, w := range adj[v] {
			if inComp[w] && prev[w] < 0 {
				prev[w] = v
				queue = append(queue, w)
			}
		}
	}
	panic("oracle.Planar: internal error: no path between attachments of a fragment")
}
