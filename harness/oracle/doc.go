// Package oracle holds reference implementations written from definitions.
// Nothing here imports the code under test.
package oracle
