package oracle

import "strconv"

// Canonical labelling by exhaustive individualisation-refinement.
//
// Definitions used below.
//
// A colouring is a slice col with col[v] in 0..k-1, every colour used. The colours are ordered
// (an ordered partition into cells). A colouring is stable (equitable) if any two vertices of the
// same colour have, for every colour c, the same number of neighbours of colour c.
//
// cnRefine computes the coarsest stable colouring refining a given one, numbering the new colours
// in an isomorphism-invariant way: the signature of v is (old colour of v, number of neighbours of
// colour 0, number of neighbours of colour 1, ...); the distinct signatures are sorted
// lexicographically and the new colour of v is the rank of its signature. Because the old colour is
// the most significant component, every round refines the previous colouring and keeps the relative
// order of the old cells. If s is an isomorphism g -> h carrying the colouring col to col' (that is
// col'[s(v)] = col[v]) then it carries the refined colouring of g to the refined colouring of h:
// nothing in the signature depends on vertex names.
//
// The search tree: the root is the refinement of the initial colouring (all vertices equal for
// Canon, rank of the class value for CanonClasses). At a node whose colouring is not discrete the
// target cell is the first cell among the non-singleton cells of smallest size (a choice depending
// only on the ordered cell sizes, hence invariant). For a vertex v of the target cell the child is
// obtained by individualising v (v gets a new colour immediately before the rest of its cell) and
// refining. A leaf has a discrete colouring, which is a bijection vertices -> 0..n-1; relabelling g
// by it gives a labelled graph, written as the bit string of its packed upper triangle
// (01, 02, 12, 03, ...: the same order as G.Key). The canonical key is the lexicographically
// smallest leaf string. Since the whole tree is defined without reference to vertex names, the set
// of leaf strings is the same for isomorphic (coloured) graphs, and each leaf string is a
// relabelling of g, so equal keys imply isomorphism.
//
// There is no automorphism pruning and no pruning by partial certificates. The single shortcut:
//
//	TWINS. Two vertices u, v are twins if A[u][w] == A[v][w] for every w other than u and v (same
//	open neighbourhood if uv is not an edge, same closed neighbourhood if it is). The transposition
//	(u v) is then an automorphism of g, and if u and v lie in the same cell of the current colouring
//	it also fixes that colouring. Hence it maps the subtree below "individualise u" onto the subtree
//	below "individualise v", and both subtrees have the same set of leaf strings. Being twins is an
//	equivalence relation, so within the target cell it suffices to individualise one vertex of every
//	twin class. In particular a target cell consisting of mutual twins has a single child.
//
// This keeps complete multipartite graphs, edgeless graphs, stars, disjoint unions of cliques and
// so on cheap; in general the number of leaves is a multiple of |Aut(g)| divided by what the twin
// rule saves, so the method is meant for small n (n <= 10 for arbitrary graphs, a few more for
// graphs with little symmetry).

// Canon returns a canonical key of the isomorphism class of g: two graphs get the same
// string iff they are isomorphic. The key is G.Key() of a canonical relabelling of g.
func Canon(g *G) string {
	n := g.N
	col := make([]int, n)
	s := cnNewSearch(g)
	s.run(col, cnMin(n, 1))
	b := make([]byte, 0, len(s.best)+4)
	b = strconv.AppendInt(b, int64(n), 10)
	b = append(b, ':')
	b = append(b, s.best...)
	return string(b)
}

// CanonClasses is like Canon but isomorphisms must map class[v] to equal class values
// (vertex-coloured graphs). class has length g.N. The key consists of n, the class values listed in
// canonical vertex order (this is just the sorted list of class values, an invariant that makes
// graphs using different class values differ), and the adjacency bits.
func CanonClasses(g *G, class []int) string {
	n := g.N
	if len(class) != n {
		panic("oracle.CanonClasses: len(class) != g.N")
	}
	// Initial colour = rank of the class value among the distinct class values.
	vals := SortedCopy(class)
	rank := map[int]int{}
	for _, x := range vals {
		if _, ok := rank[x]; !ok {
			rank[x] = len(rank)
		}
	}
	col := make([]int, n)
	for v := range col {
		col[v] = rank[class[v]]
	}
	s := cnNewSearch(g)
	s.run(col, len(rank))
	b := make([]byte, 0, len(s.best)+4*n+8)
	b = strconv.AppendInt(b, int64(n), 10)
	b = append(b, ':')
	for i, x := range vals {
		if i > 0 {
			b = append(b, ',')
		}
		b = strconv.AppendInt(b, int64(x), 10)
	}
	b = append(b, ':')
	b = append(b, s.best...)
	return string(b)
}

// IsoClasses returns one representative of every isomorphism class of simple graphs on n vertices
// (n >= 0): every class on m-1 vertices is extended by all 2^(m-1) neighbourhoods of a new vertex
// (every graph on m vertices arises this way from the class of the graph minus its last vertex) and
// the results are de-duplicated with Canon. The order is deterministic: parents in their own order,
// neighbourhood bitmasks ascending, first occurrence kept.
func IsoClasses(n int) []*G {
	if n < 0 {
		return nil
	}
	reps := []*G{New(0)}
	for m := 1; m <= n; m++ {
		var next []*G
		seen := map[string]bool{}
		for _, p := range reps {
			h := p.Copy()
			h.AddVertex(nil)
			for mask := 0; mask < 1<<uint(m-1); mask++ {
				for u := 0; u < m-1; u++ {
					b := mask>>uint(u)&1 == 1
					h.A[u][m-1] = b
					h.A[m-1][u] = b
				}
				key := Canon(h)
				if !seen[key] {
					seen[key] = true
					next = append(next, h.Copy())
				}
			}
		}
		reps = next
	}
	return reps
}

func cnMin(a, b int) int {
	if a < b {
		return a
	}
	return b
}

// cnSearch is the per-call state of one canonical labelling computation (nothing is shared
// between calls).
type cnSearch struct {
	g      *G
	n      int
	adj    [][]int
	best   []byte // smallest leaf string so far
	have   bool
	cur    []byte
	leaves int // number of leaves visited (reported by tests)
	cnt    []int
	ord    []int
	tmp    []int
}

func cnNewSearch(g *G) *cnSearch {
	n := g.N
	s := &cnSearch{g: g, n: n}
	s.adj = make([][]int, n)
	for v := 0; v < n; v++ {
		s.adj[v] = g.Nbrs(v)
	}
	s.cur = make([]byte, n*(n-1)/2) // n = 0 gives length 0
	s.cnt = make([]int, n*n)
	s.ord = make([]int, n)
	s.tmp = make([]int, n)
	return s
}

// run refines the initial colouring col (values 0..k-1, all used) and explores the tree.
func (s *cnSearch) run(col []int, k int) {
	if s.n == 0 {
		s.best = []byte{}
		s.have = true
		return
	}
	k = s.refine(col, k)
	s.search(col, k)
}

// cmpSig compares the signatures (col[v], cnt[v][0..k-1]) of u and v.
func (s *cnSearch) cmpSig(col []int, k, u, v int) int {
	if col[u] != col[v] {
		if col[u] < col[v] {
			return -1
		}
		return 1
	}
	a := s.cnt[u*k : u*k+k]
	b := s.cnt[v*k : v*k+k]
	for i := range a {
		if a[i] != b[i] {
			if a[i] < b[i] {
				return -1
			}
			return 1
		}
	}
	return 0
}

// refine replaces col (colours 0..k-1, all used) by the coarsest stable colouring refining it,
// with the invariant numbering described at the top of the file, and returns the number of colours.
func (s *cnSearch) refine(col []int, k int) int {
	n := s.n
	for {
		cnt := s.cnt[:n*k]
		for i := range cnt {
			cnt[i] = 0
		}
		for v := 0; v < n; v++ {
			for _, u := range s.adj[v] {
				cnt[v*k+col[u]]++
			}
		}
		// Sort the vertices by signature (insertion sort; n is small).
		ord := s.ord
		for i := 0; i < n; i++ {
			v := i
			j := i
			for j > 0 && s.cmpSig(col, k, ord[j-1], v) > 0 {
				ord[j] = ord[j-1]
				j--
			}
			ord[j] = v
		}
		nc := s.tmp
		nk := 0
		nc[ord[0]] = 0
		for i := 1; i < n; i++ {
			if s.cmpSig(col, k, ord[i-1], ord[i]) != 0 {
				nk++
			}
			nc[ord[i]] = nk
		}
		nk++
		copy(col, nc)
		if nk == k {
			// The new colouring refines the old one and has as many cells: it is the old one.
			return k
		}
		k = nk
	}
}

func (s *cnSearch) twins(u, v int) bool {
	au, av := s.g.A[u], s.g.A[v]
	for w := 0; w < s.n; w++ {
		if w != u && w != v && au[w] != av[w] {
			return false
		}
	}
	return true
}

// search explores the subtree below the stable colouring col with k colours.
func (s *cnSearch) search(col []int, k int) {
	n := s.n
	if k == n {
		s.leaf(col)
		return
	}
	// Target cell: first cell of smallest size among the non-singleton cells.
	size := make([]int, k)
	for _, c := range col {
		size[c]++
	}
	target := -1
	for c := 0; c < k; c++ {
		if size[c] > 1 && (target < 0 || size[c] < size[target]) {
			target = c
		}
	}
	cell := make([]int, 0, size[target])
	for v := 0; v < n; v++ {
		if col[v] == target {
			cell = append(cell, v)
		}
	}
	skip := make([]bool, len(cell)) // twin of a vertex already individualised at this node
	nc := make([]int, n)
	for i, v := range cell {
		if skip[i] {
			continue
		}
		for j := i + 1; j < len(cell); j++ {
			if !skip[j] && s.twins(v, cell[j]) {
				skip[j] = true
			}
		}
		// Individualise v: v keeps colour target, the rest of its cell and all later cells move up.
		for u := 0; u < n; u++ {
			switch {
			case u == v:
				nc[u] = target
			case col[u] >= target:
				nc[u] = col[u] + 1
			default:
				nc[u] = col[u]
			}
		}
		kk := s.refine(nc, k+1)
		s.search(nc, kk)
	}
}

// leaf handles a discrete colouring: vertex v gets the new name col[v].
func (s *cnSearch) leaf(col []int) {
	s.leaves++
	n := s.n
	inv := make([]int, n)
	for v, c := range col {
		inv[c] = v
	}
	cur := s.cur
	p := 0
	less := false // cur < best decided
	for j := 0; j < n; j++ {
		aj := s.g.A[inv[j]]
		for i := 0; i < j; i++ {
			var b byte = '0'
			if aj[inv[i]] {
				b = '1'
			}
			cur[p] = b
			if s.have && !less && b != s.best[p] {
				if b > s.best[p] {
					return // cur > best
				}
				less = true
			}
			p++
		}
	}
	if !s.have || less {
		s.best = append(s.best[:0], cur...)
		s.have = true
	}
}

// cnLeaves returns the number of leaves of the search tree of g (for tests and timing reports).
func cnLeaves(g *G) int {
	s := cnNewSearch(g)
	s.run(make([]int, g.N), cnMin(g.N, 1))
	return s.leaves
}
