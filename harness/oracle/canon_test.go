package oracle

import (
	"math/rand"
	"os"
	"strconv"
	"strings"
	"testing"
	"time"
)

// ---- graph families used by the canon/aut/group tests (prefix cn) ----

func cnCycle(n int) *G {
	g := New(n)
	for i := 0; i < n; i++ {
		g.Add(i, (i+1)%n)
	}
	return g
}

func cnPath(n int) *G {
	g := New(n)
	for i := 0; i+1 < n; i++ {
		g.Add(i, i+1)
	}
	return g
}

func cnComplete(n int) *G { return New(n).Complement() }

// cnMultipartite returns the complete multipartite graph with the given part sizes.
func cnMultipartite(parts ...int) *G {
	n := 0
	var part []int
	for i, p := range parts {
		for j := 0; j < p; j++ {
			part = append(part, i)
		}
		n += p
	}
	g := New(n)
	for u := 0; u < n; u++ {
		for v := 0; v < u; v++ {
			if part[u] != part[v] {
				g.Add(u, v)
			}
		}
	}
	return g
}

func cnPetersen() *G {
	g := New(10)
	for i := 0; i < 5; i++ {
		g.Add(i, (i+1)%5)
		g.Add(i, i+5)
		g.Add(5+i, 5+(i+2)%5)
	}
	return g
}

// cnRook returns the a x b rook graph (Cartesian product K_a x K_b).
func cnRook(a, b int) *G {
	g := New(a * b)
	for u := 0; u < a*b; u++ {
		for v := 0; v < u; v++ {
			if (u/b == v/b) != (u%b == v%b) {
				g.Add(u, v)
			}
		}
	}
	return g
}

func cnHypercube(d int) *G {
	n := 1 << uint(d)
	g := New(n)
	for u := 0; u < n; u++ {
		for k := 0; k < d; k++ {
			g.Add(u, u^(1<<uint(k)))
		}
	}
	return g
}

// cnPaley9 is the Paley graph on GF(9) = F_3[i]/(i^2+1): x ~ y iff x-y is a non-zero square.
func cnPaley9() *G {
	type el struct{ a, b int }
	mul := func(x, y el) el {
		return el{((x.a*y.a-x.b*y.b)%3 + 3) % 3, (x.a*y.b + x.b*y.a) % 3}
	}
	sq := map[el]bool{}
	for a := 0; a < 3; a++ {
		for b := 0; b < 3; b++ {
			if a != 0 || b != 0 {
				sq[mul(el{a, b}, el{a, b})] = true
			}
		}
	}
	g := New(9)
	for u := 0; u < 9; u++ {
		for v := 0; v < 9; v++ {
			d := el{((u/3-v/3)%3 + 3) % 3, ((u%3-v%3)%3 + 3) % 3}
			if u != v && sq[d] {
				g.Add(u, v)
			}
		}
	}
	return g
}

// cnFrucht is the Frucht graph via its LCF notation [-5,-2,-4,2,5,-2,2,5,-2,-5,4,2].
func cnFrucht() *G {
	lcf := []int{-5, -2, -4, 2, 5, -2, 2, 5, -2, -5, 4, 2}
	g := cnCycle(12)
	for i, d := range lcf {
		g.Add(i, ((i+d)%12+12)%12)
	}
	return g
}

// cnPaley is the Paley graph on Z_p, p prime, p = 1 mod 4.
func cnPaley(p int) *G {
	sq := make([]bool, p)
	for x := 1; x < p; x++ {
		sq[x*x%p] = true
	}
	g := New(p)
	for u := 0; u < p; u++ {
		for v := 0; v < p; v++ {
			if u != v && sq[((u-v)%p+p)%p] {
				g.Add(u, v)
			}
		}
	}
	return g
}

// cnShrikhande is the Cayley graph of Z4 x Z4 with connection set +-{(1,0),(0,1),(1,1)}: strongly
// regular with the parameters (16,6,2,2) of the 4x4 rook graph but not isomorphic to it.
func cnShrikhande() *G {
	g := New(16)
	for u := 0; u < 16; u++ {
		for _, d := range [][2]int{{1, 0}, {0, 1}, {1, 1}} {
			g.Add(u, (u/4+d[0])%4*4+(u%4+d[1])%4)
		}
	}
	return g
}

// cnClebsch is the folded 5-cube: 4-bit words, adjacent iff they differ in one bit or in all four.
func cnClebsch() *G {
	g := cnHypercube(4)
	for u := 0; u < 16; u++ {
		g.Add(u, u^15)
	}
	return g
}

func cnCopies(g *G, k int) *G {
	r := New(0)
	for i := 0; i < k; i++ {
		r = DisjointUnion(r, g)
	}
	return r
}

func cnRandPerm(r *rand.Rand, n int) []int { return r.Perm(n) }

func cnRandGraph(r *rand.Rand, n int, p float64) *G {
	g := New(n)
	for i := 0; i < n; i++ {
		for j := 0; j < i; j++ {
			if r.Float64() < p {
				g.Add(i, j)
			}
		}
	}
	return g
}

// cnPerms calls f with every permutation of 0..n-1 (the slice is reused).
func cnPerms(n int, f func(p []int)) {
	p := make([]int, n)
	used := make([]bool, n)
	var rec func(i int)
	rec = func(i int) {
		if i == n {
			f(p)
			return
		}
		for v := 0; v < n; v++ {
			if !used[v] {
				used[v] = true
				p[i] = v
				rec(i + 1)
				used[v] = false
			}
		}
	}
	rec(0)
}

// cnBruteCanon is the smallest Key over all n! relabellings.
func cnBruteCanon(g *G) string {
	best := ""
	cnPerms(g.N, func(p []int) {
		k := g.Induced(p).Key()
		if best == "" || k < best {
			best = k
		}
	})
	return best
}

// cnBruteCanonClasses is the smallest (classes, key) over all relabellings.
func cnBruteCanonClasses(g *G, class []int) string {
	best := ""
	cnPerms(g.N, func(p []int) {
		var sb strings.Builder
		for _, v := range p {
			sb.WriteString(strconv.Itoa(class[v]))
			sb.WriteByte(',')
		}
		sb.WriteString(g.Induced(p).Key())
		if k := sb.String(); best == "" || k < best {
			best = k
		}
	})
	return best
}

// cnParse turns a Canon key "n:bits" back into a graph.
func cnParse(t *testing.T, key string) *G {
	i := strings.LastIndexByte(key, ':')
	head := key[:i]
	if j := strings.IndexByte(head, ':'); j >= 0 {
		head = head[:j]
	}
	n, err := strconv.Atoi(head)
	if err != nil {
		t.Fatalf("bad key %q", key)
	}
	bits := key[i+1:]
	if len(bits) != n*(n-1)/2 {
		t.Fatalf("bad key length %q", key)
	}
	g := New(n)
	p := 0
	for j := 0; j < n; j++ {
		for i := 0; i < j; i++ {
			if bits[p] == '1' {
				g.Add(i, j)
			}
			p++
		}
	}
	return g
}

func cnSlow() bool { return !testing.Short() && os.Getenv("ORACLE_SLOW") == "1" }

// ---- tests ----

func TestCanonIsoClassCounts(t *testing.T) {
	want := []int{1, 1, 2, 4, 11, 34, 156, 1044}
	for n, w := range want {
		reps := IsoClasses(n)
		if len(reps) != w {
			t.Fatalf("IsoClasses(%d): got %d classes, want %d", n, len(reps), w)
		}
		for _, g := range reps {
			if g.N != n {
				t.Fatalf("IsoClasses(%d) returned a graph on %d vertices", n, g.N)
			}
		}
	}
	if len(IsoClasses(-1)) != 0 {
		t.Fatal("IsoClasses(-1) should be empty")
	}
}

func TestCanonIsoClassCountsSlow(t *testing.T) {
	if !cnSlow() {
		t.Skip("set ORACLE_SLOW=1 (and no -short) for n = 8, 9")
	}
	for _, c := range []struct{ n, want int }{{8, 12346}, {9, 274668}} {
		t0 := time.Now()
		got := len(IsoClasses(c.n))
		t.Logf("IsoClasses(%d): %d classes in %v", c.n, got, time.Since(t0))
		if got != c.want {
			t.Fatalf("IsoClasses(%d): got %d, want %d", c.n, got, c.want)
		}
	}
}

// Two calls give the same representatives in the same order.
func TestCanonIsoClassesDeterministic(t *testing.T) {
	a, b := IsoClasses(6), IsoClasses(6)
	for i := range a {
		if !a[i].Equal(b[i]) {
			t.Fatalf("IsoClasses(6) differs at %d", i)
		}
	}
}

// All labelled graphs on n <= 5 vertices: Canon induces exactly the partition given by the brute
// force minimum over n! relabellings, and the key is a relabelling of the graph.
func TestCanonVsBruteForceAllLabelled(t *testing.T) {
	for n := 0; n <= 5; n++ {
		m := n * (n - 1) / 2
		c2b := map[string]string{}
		b2c := map[string]string{}
		for mask := 0; mask < 1<<uint(m); mask++ {
			g := New(n)
			p := 0
			for j := 0; j < n; j++ {
				for i := 0; i < j; i++ {
					if mask>>uint(p)&1 == 1 {
						g.Add(i, j)
					}
					p++
				}
			}
			c, b := Canon(g), cnBruteCanon(g)
			if x, ok := c2b[c]; ok && x != b {
				t.Fatalf("n=%d: Canon %q shared by non-isomorphic graphs", n, c)
			}
			if x, ok := b2c[b]; ok && x != c {
				t.Fatalf("n=%d: isomorphic graphs with Canon %q and %q", n, x, c)
			}
			c2b[c], b2c[b] = b, c
			h := cnParse(t, c)
			if n > 0 && cnBruteCanon(h) != b {
				t.Fatalf("n=%d: Canon key %q is not a relabelling of %s", n, c, g.Key())
			}
			if h.Key() != c {
				t.Fatalf("Canon key %q is not in G.Key format", c)
			}
		}
		if len(c2b) != len(IsoClasses(n)) {
			t.Fatalf("n=%d: %d Canon values, %d classes", n, len(c2b), len(IsoClasses(n)))
		}
	}
}

func TestCanonInvariantUnderRelabelling(t *testing.T) {
	r := rand.New(rand.NewSource(20260927))
	for n := 0; n <= 6; n++ {
		seen := map[string]int{}
		for idx, g := range IsoClasses(n) {
			c := Canon(g)
			if j, ok := seen[c]; ok {
				t.Fatalf("n=%d: reps %d and %d have the same Canon", n, j, idx)
			}
			seen[c] = idx
			h0 := cnParse(t, c)
			if h0.M() != g.M() {
				t.Fatalf("edge count changed")
			}
			d1, d2 := SortedCopy(g.Degs()), SortedCopy(h0.Degs())
			for i := range d1 {
				if d1[i] != d2[i] {
					t.Fatalf("degree sequence changed")
				}
			}
			if Canon(h0) != c {
				t.Fatalf("Canon not idempotent on %q", c)
			}
			for k := 0; k < 6; k++ {
				p := cnRandPerm(r, n)
				if c2 := Canon(g.Induced(p)); c2 != c {
					t.Fatalf("n=%d rep %d perm %v: %q != %q", n, idx, p, c2, c)
				}
			}
		}
	}
}

// Larger and more symmetric graphs: invariance under relabelling, and separation of some
// classical pairs that 1-WL alone cannot separate.
func TestCanonNamedGraphs(t *testing.T) {
	r := rand.New(rand.NewSource(7))
	named := map[string]*G{
		"petersen": cnPetersen(), "rook3x3": cnRook(3, 3), "q3": cnHypercube(3),
		"2c4": cnCopies(cnCycle(4), 2), "3c3": cnCopies(cnCycle(3), 3), "c10": cnCycle(10),
		"coC10": cnCycle(10).Complement(), "paley9": cnPaley9(), "k333": cnMultipartite(3, 3, 3),
		"2c5": cnCopies(cnCycle(5), 2), "cocktail5": cnCopies(cnComplete(2), 5).Complement(),
		"k10": cnComplete(10), "e10": New(10), "star": cnMultipartite(1, 9), "k55": cnMultipartite(5, 5),
		"c8": cnCycle(8), "c9": cnCycle(9), "c6": cnCycle(6), "2c3": cnCopies(cnCycle(3), 2),
		"prism": cnRook(2, 3), "k33": cnMultipartite(3, 3), "frucht": cnFrucht(), "p7": cnPath(7),
		"5k2": cnCopies(cnComplete(2), 5), "k5+c5": DisjointUnion(cnComplete(5), cnCycle(5)),
		"c4+c6": DisjointUnion(cnCycle(4), cnCycle(6)), "c3+c7": DisjointUnion(cnCycle(3), cnCycle(7)),
		"q3+2": DisjointUnion(cnHypercube(3), New(2)), "q3+k2": DisjointUnion(cnHypercube(3), cnComplete(2)),
	}
	// K5,5 minus a perfect matching (the bipartite double of K5).
	km := cnMultipartite(5, 5)
	for i := 0; i < 5; i++ {
		km.Del(i, 5+i)
	}
	named["k55-m"] = km
	keys := map[string]string{}
	for name, g := range named {
		c := Canon(g)
		for k := 0; k < 5; k++ {
			p := cnRandPerm(r, g.N)
			if Canon(g.Induced(p)) != c {
				t.Fatalf("%s: Canon changed under %v", name, p)
			}
		}
		if cnParse(t, c).M() != g.M() {
			t.Fatalf("%s: edge count", name)
		}
		keys[name] = c
	}
	same := [][2]string{{"paley9", "rook3x3"}}
	diff := [][2]string{{"c6", "2c3"}, {"prism", "k33"}, {"c10", "2c5"}, {"c10", "c4+c6"},
		{"c10", "c3+c7"}, {"c4+c6", "c3+c7"}, {"2c5", "c4+c6"}, {"petersen", "k55-m"}, {"q3+2", "q3+k2"}}
	for _, p := range same {
		if keys[p[0]] != keys[p[1]] {
			t.Fatalf("%s and %s should be isomorphic", p[0], p[1])
		}
	}
	for _, p := range diff {
		if keys[p[0]] == keys[p[1]] {
			t.Fatalf("%s and %s should not be isomorphic", p[0], p[1])
		}
	}
	// Complement of the Petersen graph is the line graph of K5 (triangular graph T5).
	t5 := New(10)
	var pairs [][2]int
	for i := 0; i < 5; i++ {
		for j := 0; j < i; j++ {
			pairs = append(pairs, [2]int{j, i})
		}
	}
	for a, x := range pairs {
		for b, y := range pairs {
			if a != b && (x[0] == y[0] || x[0] == y[1] || x[1] == y[0] || x[1] == y[1]) {
				t5.Add(a, b)
			}
		}
	}
	if Canon(t5) != Canon(cnPetersen().Complement()) {
		t.Fatal("L(K5) should be the complement of Petersen")
	}
	// Strongly regular graphs with equal parameters.
	if Canon(cnShrikhande()) == Canon(cnRook(4, 4)) {
		t.Fatal("Shrikhande and 4x4 rook should differ")
	}
	if c := Canon(cnShrikhande()); Canon(cnShrikhande().Induced(cnRandPerm(r, 16))) != c {
		t.Fatal("Shrikhande: Canon changed under relabelling")
	}
	if Canon(cnPaley(13)) != Canon(cnPaley(13).Complement()) {
		t.Fatal("Paley(13) should be self-complementary")
	}
	// Random graphs with little symmetry, n up to 13.
	for n := 7; n <= 13; n++ {
		for k := 0; k < 4; k++ {
			g := cnRandGraph(r, n, 0.3+0.1*float64(k))
			c := Canon(g)
			if Canon(g.Induced(cnRandPerm(r, n))) != c {
				t.Fatalf("random n=%d: Canon changed", n)
			}
			// Toggling one pair changes the edge count, hence the class.
			h := g.Copy()
			if h.Has(0, 1) {
				h.Del(0, 1)
			} else {
				h.Add(0, 1)
			}
			if Canon(h) == c {
				t.Fatalf("random n=%d: different edge counts, same Canon", n)
			}
		}
	}
}

// Without twins Aut(g) acts freely on the leaves of the search tree, so their number is a
// multiple of |Aut| (equal to it when all leaves are equivalent; Frucht has a trivial group but is
// cubic, so the root cell has 12 children); the twin rule makes it smaller.
func TestCanonLeafCounts(t *testing.T) {
	for _, c := range []struct {
		name string
		g    *G
		want int
	}{
		{"petersen", cnPetersen(), 120}, {"rook3x3", cnRook(3, 3), 72}, {"q3", cnHypercube(3), 48},
		{"c10", cnCycle(10), 20}, {"2c5", cnCopies(cnCycle(5), 2), 200}, {"frucht", cnFrucht(), 12},
		{"k10", cnComplete(10), 1}, {"e10", New(10), 1}, {"star", cnMultipartite(1, 9), 1},
	} {
		if got := cnLeaves(c.g); got != c.want {
			t.Errorf("%s: %d leaves, want %d", c.name, got, c.want)
		}
	}
}

func TestCanonClasses(t *testing.T) {
	r := rand.New(rand.NewSource(99))
	// P3 with the centre marked vs an end marked.
	p3 := cnPath(3)
	if CanonClasses(p3, []int{0, 1, 0}) == CanonClasses(p3, []int{1, 0, 0}) {
		t.Fatal("P3 centre/end colourings not distinguished")
	}
	if CanonClasses(p3, []int{1, 0, 0}) != CanonClasses(p3, []int{0, 0, 1}) {
		t.Fatal("P3 end colourings should agree")
	}
	// Class values matter, not just the partition.
	if CanonClasses(p3, []int{0, 1, 0}) == CanonClasses(p3, []int{0, 2, 0}) {
		t.Fatal("different class values should give different keys")
	}
	if CanonClasses(p3, []int{0, 1, 0}) == CanonClasses(p3, []int{1, 0, 1}) {
		t.Fatal("swapped class values should give different keys")
	}
	if CanonClasses(New(0), []int{}) != CanonClasses(New(0), nil) {
		t.Fatal("n=0")
	}
	// With all classes equal: same partition of graphs as Canon.
	for n := 0; n <= 6; n++ {
		seen := map[string]bool{}
		for _, g := range IsoClasses(n) {
			cl := make([]int, n)
			for i := range cl {
				cl[i] = 5
			}
			c := CanonClasses(g, cl)
			if seen[c] {
				t.Fatalf("n=%d: CanonClasses(const) merges classes", n)
			}
			seen[c] = true
			for k := 0; k < 3; k++ {
				if CanonClasses(g.Induced(cnRandPerm(r, n)), cl) != c {
					t.Fatalf("n=%d: CanonClasses(const) not invariant", n)
				}
			}
			if cnParse(t, c).M() != g.M() || Canon(cnParse(t, c)) != Canon(g) {
				t.Fatalf("n=%d: CanonClasses(const) key is not the graph", n)
			}
		}
	}
	// Against brute force: all 2-colourings (and some 3-colourings) of all reps with n <= 5, plus
	// relabelled copies; keys must induce exactly the brute-force partition.
	for n := 1; n <= 5; n++ {
		c2b := map[string]string{}
		b2c := map[string]string{}
		check := func(g *G, cl []int) {
			c, b := CanonClasses(g, cl), cnBruteCanonClasses(g, cl)
			if x, ok := c2b[c]; ok && x != b {
				t.Fatalf("n=%d: key %q shared by non-isomorphic coloured graphs", n, c)
			}
			if x, ok := b2c[b]; ok && x != c {
				t.Fatalf("n=%d: isomorphic coloured graphs with keys %q, %q", n, x, c)
			}
			c2b[c], b2c[b] = b, c
		}
		for _, g := range IsoClasses(n) {
			for mask := 0; mask < 1<<uint(n); mask++ {
				cl := make([]int, n)
				for i := range cl {
					cl[i] = mask >> uint(i) & 1
				}
				check(g, cl)
				// Transport by a relabelling: vertex i of h is vertex p[i] of g.
				p := cnRandPerm(r, n)
				hl := make([]int, n)
				for i := range hl {
					hl[i] = cl[p[i]]
				}
				if CanonClasses(g.Induced(p), hl) != CanonClasses(g, cl) {
					t.Fatalf("n=%d: CanonClasses not invariant under transport", n)
				}
			}
			for k := 0; k < 8; k++ {
				cl := make([]int, n)
				for i := range cl {
					cl[i] = r.Intn(3) - 1
				}
				check(g, cl)
			}
		}
	}
	// Bigger: Petersen with one vertex marked: all 10 choices equivalent (vertex-transitive);
	// with two vertices marked: adjacent vs non-adjacent pairs give exactly 2 keys.
	pg := cnPetersen()
	keys := map[string]bool{}
	for u := 0; u < 10; u++ {
		for v := 0; v < u; v++ {
			cl := make([]int, 10)
			cl[u], cl[v] = 1, 1
			keys[CanonClasses(pg, cl)] = true
		}
	}
	if len(keys) != 2 {
		t.Fatalf("Petersen marked pairs: %d keys, want 2", len(keys))
	}
}

// Concurrent use gives the same results (no shared state).
func TestCanonConcurrent(t *testing.T) {
	gs := IsoClasses(6)
	want := make([]string, len(gs))
	for i, g := range gs {
		want[i] = Canon(g)
	}
	done := make(chan bool)
	for w := 0; w < 4; w++ {
		go func() {
			ok := true
			for i, g := range gs {
				if Canon(g) != want[i] {
					ok = false
				}
			}
			done <- ok
		}()
	}
	for w := 0; w < 4; w++ {
		if !<-done {
			t.Fatal("concurrent Canon differs")
		}
	}
}

// Timings requested by the harness design (logged with -v).
func TestCanonTimings(t *testing.T) {
	r := rand.New(rand.NewSource(1))
	km := cnMultipartite(5, 5)
	for i := 0; i < 5; i++ {
		km.Del(i, 5+i)
	}
	for _, c := range []struct {
		name string
		g    *G
	}{
		{"petersen", cnPetersen()}, {"rook3x3", cnRook(3, 3)}, {"q3", cnHypercube(3)},
		{"2c4", cnCopies(cnCycle(4), 2)}, {"3c3", cnCopies(cnCycle(3), 3)}, {"c10", cnCycle(10)},
		{"coC10", cnCycle(10).Complement()}, {"paley9", cnPaley9()}, {"k333", cnMultipartite(3, 3, 3)},
		{"2c5", cnCopies(cnCycle(5), 2)}, {"k55-matching", km}, {"5k2", cnCopies(cnComplete(2), 5)},
		{"q3+2", DisjointUnion(cnHypercube(3), New(2))}, {"k10", cnComplete(10)},
		{"shrikhande", cnShrikhande()}, {"rook4x4", cnRook(4, 4)}, {"paley13", cnPaley(13)},
		{"rand13", cnRandGraph(r, 13, 0.5)}, {"c13", cnCycle(13)}, {"c6+c7", DisjointUnion(cnCycle(6), cnCycle(7))},
	} {
		worst := time.Duration(0)
		for k := 0; k < 5; k++ {
			h := c.g.Induced(cnRandPerm(r, c.g.N))
			t0 := time.Now()
			Canon(h)
			if d := time.Since(t0); d > worst {
				worst = d
			}
		}
		t.Logf("Canon %-13s n=%2d leaves=%4d worst of 5: %v", c.name, c.g.N, cnLeaves(c.g), worst)
		if worst > 2*time.Second {
			t.Errorf("%s too slow: %v", c.name, worst)
		}
	}
}
