package oracle

import (
	"fmt"
	"testing"
)

func cdDecodeG6(s string) *G {
	g, err := ParseGraph6(s)
	if err != nil {
		panic(err)
	}
	return g
}

func TestCodecsKnownStrings(t *testing.T) {
	// worked examples of formats.txt
	g := FromEdges(5, [][2]int{{0, 2}, {0, 4}, {1, 3}, {3, 4}})
	if s := RefGraph6(g); s != "DQc" {
		t.Fatalf("graph6 example: %q", s)
	}
	h := FromEdges(7, [][2]int{{0, 1}, {0, 2}, {1, 2}, {5, 6}})
	if s := RefSparse6(h); s != ":Fa@x^" {
		t.Fatalf("sparse6 example: %q", s)
	}
	// size fields from formats.txt: n=30 -> 93 ; n=12345 -> 126 66 63 120 ; n=460175067 -> 126 126 63 90 90 90 90 90
	if fmt.Sprint(sizeField(30)) != "[93]" || fmt.Sprint(sizeField(12345)) != "[126 66 63 120]" || fmt.Sprint(sizeField(460175067)) != "[126 126 63 90 90 90 90 90]" {
		t.Fatalf("size fields wrong: %v %v %v", sizeField(30), sizeField(12345), sizeField(460175067))
	}
	// pairs produced by nauty (taken from the mamba test-suite)
	for _, p := range [][2]string{
		{"Ks@HOo?PGdCK", ":K`ADOccQXK`IaXcQMb"},
		{"OsaBA`GP@`dIHWEcas_]O", ":O`ACGPDC[QPJGYCqG\\KafPK`ckeSqDsIWyn"},
		{"J?AKagjXfo?", ":Ji?c@pEUPBFaGhg@CKf"},
	} {
		g := cdDecodeG6(p[0])
		if s := RefGraph6(g); s != p[0] {
			t.Fatalf("graph6 of %s re-encodes to %s", p[0], s)
		}
		if s := RefSparse6(g); s != p[1] {
			t.Fatalf("sparse6 of %s is %s want %s", p[0], s, p[1])
		}
		n, edges, err := RefSparse6Decode(p[1])
		if err != nil || n != g.N {
			t.Fatalf("decode %s: %v", p[1], err)
		}
		d := New(n)
		for _, e := range edges {
			if e.U == e.V || d.Has(e.U, e.V) {
				t.Fatalf("loop or repeated edge decoding %s", p[1])
			}
			d.Add(e.U, e.V)
		}
		if !d.Equal(g) {
			t.Fatalf("sparse6 decode of %s differs", p[1])
		}
	}
}

func TestSparse6RoundTripAllSmall(t *testing.T) {
	// every labelled graph on n <= 5 vertices: the reference decoder inverts the reference encoder without loops or repeats
	for n := 0; n <= 5; n++ {
		m := n * (n - 1) / 2
		for mask := 0; mask < 1<<uint(m); mask++ {
			g := New(n)
			idx := 0
			for j := 1; j < n; j++ {
				for i := 0; i < j; i++ {
					if mask>>uint(idx)&1 == 1 {
						g.Add(i, j)
					}
					idx++
				}
			}
			s := RefSparse6(g)
			nn, edges, err := RefSparse6Decode(s)
			if err != nil || nn != n {
				t.Fatalf("n=%d mask=%d: %v", n, mask, err)
			}
			d := New(n)
			for _, e := range edges {
				if e.U == e.V || d.Has(e.U, e.V) {
					t.Fatalf("n=%d mask=%d %q: loop/repeat %v", n, mask, s, e)
				}
				d.Add(e.U, e.V)
			}
			if !d.Equal(g) {
				t.Fatalf("n=%d mask=%d %q: round trip differs", n, mask, s)
			}
			if !cdDecodeG6(RefGraph6(g)).Equal(g) {
				t.Fatalf("graph6 round trip n=%d mask=%d", n, mask)
			}
		}
	}
}

func TestPruferRef(t *testing.T) {
	g := FromEdges(6, [][2]int{{0, 3}, {1, 3}, {2, 3}, {3, 4}, {4, 5}})
	if fmt.Sprint(RefPruferEncode(g)) != "[3 3 3 4]" {
		t.Fatalf("encode: %v", RefPruferEncode(g))
	}
	if !RefPruferDecode([]int{3, 3, 3, 4}).Equal(g) {
		t.Fatal("decode")
	}
	// bijection for n = 5: 125 codes -> 125 distinct trees
	seen := map[string]bool{}
	for a := 0; a < 5; a++ {
		for b := 0; b < 5; b++ {
			for c := 0; c < 5; c++ {
				tr := RefPruferDecode([]int{a, b, c})
				if !IsTree(tr) || fmt.Sprint(RefPruferEncode(tr)) != fmt.Sprint([]int{a, b, c}) {
					t.Fatalf("code %v", []int{a, b, c})
				}
				seen[tr.Key()] = true
			}
		}
	}
	if len(seen) != 125 {
		t.Fatalf("%d trees", len(seen))
	}
}
