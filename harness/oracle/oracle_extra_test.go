package oracle

import (
	"fmt"
	"sort"
	"testing"
)

func TestMaximalCliquesLargeAgreesWithSubsetEnumeration(t *testing.T) {
	for n := 0; n <= 6; n++ {
		for _, g := range IsoClasses(n) {
			a := MaximalCliques(g)
			b, ok := MaximalCliquesLarge(g, 1<<20)
			if !ok {
				t.Fatal("limit")
			}
			ka, kb := []string{}, []string{}
			for _, c := range a {
				ka = append(ka, fmt.Sprint(c))
			}
			for _, c := range b {
				kb = append(kb, fmt.Sprint(c))
			}
			sort.Strings(ka)
			sort.Strings(kb)
			if fmt.Sprint(ka) != fmt.Sprint(kb) {
				t.Fatalf("n=%d %v: %v vs %v", n, g.Edges(), ka, kb)
			}
		}
	}
}
