#!/bin/sh
# usage: tools/record_fix.sh <prop> <replay-file> <slug> "<what failed>"   (run after committing the fix in /repo)
set -e
prop=$1; rp=$2; slug=$3; what=$4
mkdir -p /verif/regress
cp "$rp" /verif/regress/$prop-$slug.json
c=$(git -C /repo rev-parse --short HEAD)
[ -f /verif/known_findings.txt ] || printf '# open:  property=<ID> key=<key> replay=<path> <what fails>\n# fixed: property=<ID> <commit in /repo> <what failed> (regression case)\n' > /verif/known_findings.txt
echo "fixed: property=$prop $c $what (regress/$prop-$slug.json)" >> /verif/known_findings.txt
tail -1 /verif/known_findings.txt
