#!/usr/bin/env python3
"""usage: tools/keep_mut.py <ID> <K> <quick_exit> <thorough_exit> "<caught-by summary>"  -- copy a confirmed seeded change into /verif/seeded/"""
import json, os, shutil, sys, re
ID, K, q, th, summary = sys.argv[1:6]
src = os.environ.get("MUT_SRC", "/tmp/wt/out") + f"/{ID}"
dst = f"/verif/seeded/{ID}-" + os.environ.get("MUT_TAG", "") + f"{K}"
os.makedirs(dst, exist_ok=True)
shutil.copy(f"{src}/mut{K}.diff", f"{dst}/patch.diff")
shutil.copy(f"{src}/demo{K}_test.go", f"{dst}/demo_test.go.txt")
note = open(f"{src}/note{K}.md").read() if os.path.exists(f"{src}/note{K}.md") else ""
shutil.copy(f"{src}/note{K}.md", f"{dst}/note.md") if note else None
first = open(f"{src}/demo{K}_test.go").readline().strip()
meta = {
  "property": ID,
  "what": (note.strip().split("\n\n")[0][:600] if note else ""),
  "needs_to_manifest": "see note.md (written by the independent sub-agent that produced the change)",
  "demo": {"file": "demo_test.go.txt", "placement": first},
  "confirmed_by_me": {
     "how": f"tools/eval_mut.sh {ID} {K}: scratch worktree of /repo HEAD; existing suite with the change: pass; demo with the change: fail; demo without: pass",
     "checks_run": f"git -C /repo apply patch.diff; ./check {ID} --tier quick (exit {q}); thorough (exit {th}); git -C /repo checkout -- .",
  },
  "detected": {"quick": q == "1", "thorough": (th == "1") if th != "-" else None, "summary": summary},
}
json.dump(meta, open(f"{dst}/meta.json", "w"), indent=1)
print("kept", dst)
