#!/bin/bash
# usage: tools/eval_mut.sh <ID> <K> [outdir]   -- confirm a seeded mutation and run the checks against it
# 1. in a scratch worktree: existing suite passes with the mutation, demo fails with it and passes without
# 2. apply to /repo, run ./check <ID> (quick, then thorough if quick stays silent), revert
export GOFLAGS=-mod=mod GOPROXY=off GOSUMDB=off GOTOOLCHAIN=local
ID=$1; K=$2; OUT=${3:-/tmp/wt/out/$ID}
DIFF=$OUT/mut$K.diff; DEMO=$OUT/demo${K}_test.go
[ -f "$DIFF" ] && [ -f "$DEMO" ] || { echo "missing $DIFF or $DEMO"; exit 2; }
W=/tmp/ev-$ID-$K
git -C /repo worktree remove --force $W 2>/dev/null; rm -rf $W
git -C /repo worktree add -q --detach $W HEAD || exit 2
place=$(head -1 "$DEMO" | sed -n 's#^// place in: *##p' | tr -d ' \r')
[ -n "$place" ] || place=.
res=""
( cd $W && git apply "$DIFF" ) || { echo "RESULT $ID/$K: diff does not apply"; git -C /repo worktree remove --force $W; exit 3; }
( cd $W && go build ./... && go test -vet=off -count=1 ./... >/tmp/ev-$ID-$K.suite 2>&1 ) && suite=pass || suite=FAIL
cp "$DEMO" $W/$place/zz_demo_test.go
name=$(grep -o 'func Test[A-Za-z0-9_]*' "$DEMO" | head -1 | sed 's/func //')
( cd $W/$place && timeout 600 go test -vet=off -count=1 -run "^$name\$" . >/tmp/ev-$ID-$K.demo1 2>&1 ) && demo_mut=pass || demo_mut=fail
( cd $W && git apply -R "$DIFF" )
( cd $W/$place && timeout 600 go test -vet=off -count=1 -run "^$name\$" . >/tmp/ev-$ID-$K.demo2 2>&1 ) && demo_clean=pass || demo_clean=FAIL
rm -f $W/$place/zz_demo_test.go
echo "CONFIRM $ID/$K: suite_with_mutation=$suite demo_with_mutation=$demo_mut demo_without=$demo_clean"
if [ "$suite" != pass ] || [ "$demo_mut" != fail ] || [ "$demo_clean" != pass ]; then echo "RESULT $ID/$K: NOT CONFIRMED"; git -C /repo worktree remove --force $W; exit 4; fi
# run the checks against the scratch worktree carrying the change (development override of the driver; /repo is not touched;
# equivalent to: git -C /repo apply patch.diff; ./check ID; git -C /repo checkout -- .)
( cd $W && git apply "$DIFF" ) || exit 3
cd /verif
CHECKS=${CHECK_IDS:-$ID}
t0=$(date +%s)
q=0
for c in $CHECKS; do VERIF_DEV_REPO=$W ./check $c --tier quick > /tmp/ev-$ID-$K.quick.$c 2>&1; r=$?; [ $r -eq 1 ] && q=1; [ $r -eq 2 ] && [ $q -eq 0 ] && q=2; done
t1=$(date +%s)
th=-
if [ $q -ne 1 ] && [ -z "$QUICK_ONLY" ]; then VERIF_DEV_REPO=$W ./check $ID --tier thorough > /tmp/ev-$ID-$K.thorough 2>&1; th=$?; fi
t2=$(date +%s)
git -C /repo worktree remove --force $W
echo "RESULT $ID/$K: quick_exit=$q ($((t1-t0))s) thorough_exit=$th ($((t2-t1))s)"
grep -h -m3 "VIOLATION\|INCONCLUSIVE" /tmp/ev-$ID-$K.quick.* /tmp/ev-$ID-$K.thorough 2>/dev/null | cut -c1-300
