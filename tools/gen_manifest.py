#!/usr/bin/env python3
"""Regenerates /verif/MANIFEST.json from tools/manifest_src.json (claimed checks) and properties.jsonl."""
import json, os
V = os.path.dirname(os.path.dirname(os.path.abspath(__file__)))
src = json.load(open(os.path.join(V, "tools", "manifest_src.json")))
props = [json.loads(l) for l in open(os.path.join(V, "properties.jsonl")) if l.strip()]
checks, na = [], []
for p in props:
    pid = p["id"]
    c = src["checks"].get(pid)
    if not c:
        na.append({"property_id": pid, "reason": src["not_applicable"].get(pid, "check not built yet")})
        continue
    checks.append({
        "property_id": pid,
        "quick_cmd": f"./check {pid} --tier quick",
        "thorough_cmd": f"./check {pid} --tier thorough",
        "evidence_file": f"/verif/evidence/{pid}.json",
        "replay_cmd_template": f"./check {pid} --replay {{path}}",
        "engine": "rapid-harness",
        "level_claimed": {"category": c.get("level", "exploration"), "text": c["text"], "design_ref": c.get("design_ref", f"DESIGN.md section 3, {pid}")},
        "level_note": c["note"],
        "technique": c["technique"],
    })
m = {
    "version": 1,
    "setup_cmd": src["setup_cmd"],
    "hooks": src["hooks"],
    "engines": src["engines"],
    "checks": checks,
    "notes": src["notes"],
    "not_applicable": na,
}
json.dump(m, open(os.path.join(V, "MANIFEST.json"), "w"), indent=1)
print("checks:", len(checks), "not_applicable:", len(na))
