#!/usr/bin/env python3
"""Rewrites section 10 of DESIGN.md (the as-built list of sub-properties) from the harness registry."""
import json, os, re, subprocess, tempfile
V = "/verif"
env = dict(os.environ, GOFLAGS="-mod=mod", GOPROXY="off", GOSUMDB="off", GOTOOLCHAIN="local", VERIF_LIST="1")
out = subprocess.run(["go", "test", "-tags", "verif", "-vet=off", "./props", "-run", "^TestList$", "-v"], cwd=V + "/harness", env=env,
                     stdout=subprocess.PIPE, stderr=subprocess.STDOUT, text=True).stdout
reg = json.loads(re.search(r"REGISTRY-JSON: (.*)", out).group(1))
txt = "\n## 10. Sub-properties as built (generated from the harness registry by tools/gen_design_subs.py)\n\n"
txt += "Budgets are rapid cases per shard x shards (quick / thorough); enumerators have no case count. `./check <ID> --only <text>` runs a subset.\n"
cur = None
for s in reg:
    if s["property"] != cur:
        cur = s["property"]
        txt += f"\n### {cur}\n\n"
    q, t = s["quick"], s["thorough"]
    if s["kind"] == "rapid":
        b = f"rapid, {q['Checks']}x{q['Shards']} / {t['Checks']}x{t['Shards']}"
    else:
        b = f"enumeration{', complete for its stated space' if s['exhaustive'] else ''}, shards {q['Shards']} / {t['Shards']}"
    if s["race"]:
        b += ", -race binary"
    txt += f"- **{s['name']}** ({b}): {s['rule']}\n"
d = open(V + "/DESIGN.md").read()
if "\n## 10. Sub-properties as built" in d:
    d = d[:d.index("\n## 10. Sub-properties as built")]
open(V + "/DESIGN.md", "w").write(d + txt)
print(len(reg), "sub-properties")
