#!/usr/bin/env python3
"""Rewrites section 9 of DESIGN.md (seeded changes and results) from /verif/seeded/*/meta.json; keeps section 10 after it."""
import json, glob, os, re
rows = []
for d in sorted(glob.glob('/verif/seeded/*/')):
    m = json.load(open(d + 'meta.json'))
    note = open(d + 'note.md').read() if os.path.exists(d + 'note.md') else ''
    desc = ''
    for line in note.split('\n'):
        line = line.strip()
        if line and not line.startswith('#'):
            desc = line
            break
    desc = re.sub(r'\s+', ' ', desc)[:170]
    rows.append((os.path.basename(d.rstrip('/')), desc, m['detected']['summary']))
def rnd(name):
    return 12 if '-r12-' in name else 11 if '-r11-' in name else 10 if '-r10-' in name else 9 if '-r9-' in name else 8 if '-r8-' in name else 7 if '-r7-' in name else 6 if '-r6-' in name else 5 if '-r5-' in name else 4 if '-r4-' in name else 3 if '-r3-' in name else 2 if '-r2-' in name else 1
stats = {}
for r in rows:
    k = rnd(r[0])
    st = stats.setdefault(k, [0, 0, 0])
    st[0] += 1
    low = r[2].lower()
    if low.startswith('not a violation') or low.startswith('not claimed'):
        st[2] += 1
    elif 'missed' in low or 'not caught' in low or 'inconclusive' in low or low.startswith('not reported'):
        st[1] += 1
out = f"""
## 9. Seeded breaking changes and which checks catch them

{len(rows)} changes were written by independent sub-agents that saw only the property text and a scratch worktree of
`/repo` (nothing from `/verif`). Round 1 asked for two per property; round 2 (after the checks had been strengthened)
for three more per property in other functions and by other mechanisms, harder to hit (rarer than 1 in 200 for small
uniform inputs, or only beyond some size, or only after a specific history), at least one silent; round 3 for two more,
given the list of the five earlier ones, aimed at rarely combined calls, state surviving across calls, edges of the
documented domain and components an obvious oracle does not look at; round 4 for two more, given the earlier seven,
aimed at helper packages the anchored code calls into (ints, sortints, comb, views), at the order and repetition of
calls (accessors that hand out internal state, caches keyed by identity, re-initialised builders, re-entrant calls)
and at sizes past every threshold the earlier rounds had provoked; round 5 for two more, given the earlier nine,
written as realistic maintenance commits (performance work: word-parallel tricks, unrolling, pooled or package-level
scratch memory, narrowed integer types, fast paths above a size; refactors; well-meant robustness "fixes") whose slip
needs two thresholds at once, a size between 64 and 5000, a particular error value, or a value with a past; round 6 for
two more, given the earlier eleven, restricted to ALGORITHMIC slips inside the algorithms themselves (an invariant
restored in all but one branch, a tie broken the wrong way, an over-eager early exit, a missing case) that are wrong
for a structurally special minority of SMALL inputs; round 7 for two more, given the earlier thirteen, again as realistic
maintenance commits but excluding every family used before (relations between two arguments, regularity the author
assumed, order of side effects, arithmetic simplifications, dropped doc-comment promises, zero values, hoisted loop
invariants); round 8 for two more, given the earlier fifteen, starting from the `fix:` commits of section 8 (visible in the
worktree's git log): regressions NEXT TO a repaired defect - the same root cause for another input, a half-revert, a
later simplification of the repaired code, the same slip in a sister function the fix did not touch - or, where no fix
touches the property's code, another maintenance commit; round 9 repeated round 8's brief with the seventeen earlier
changes listed, as a control sample, and so did round 10 with nineteen (three agents delivered only one change or none
within their budget: 35 changes); round 11 was classical mutation testing: up to three single-edit mutants per property
(operator, constant, bound, deleted statement, swapped arguments, a local moved to package level) that survive the
repository's own suite and are not equivalent, 57 in all; round 12 repeated the brief of rounds 8-10 for the twelve
properties whose checks had needed most strengthening (21 changes). Each change compiles, passes the repository's own
test-suite and comes with a demonstration test that fails with the change and passes without it; all of that was
re-confirmed with `tools/eval_mut.sh` (C19-r2-2 by hand under `-race`) before the change was kept under
`seeded/<property>-<k>/`, `seeded/<property>-r<round>-<k>/` (`patch.diff`, `demo_test.go.txt`,
`note.md`, `meta.json`). To run the checks against one: `git -C /repo apply seeded/<id>/patch.diff; ./check <ID>;
git -C /repo checkout -- .`.

| round | changes | reported by the quick tier as it stood on arrival | needed a strengthening (or belong to another check) | outside the property as stated (not claimed) |
|---|---|---|---|---|
""" + "".join(f"| {k} | {v[0]} | {v[0]-v[1]-v[2]} | {v[1]} | {v[2]} |\n" for k, v in sorted(stats.items())) + """
(For round 2 the checks had already been extended after reading the authors' notes, so "on arrival" is generous there;
for rounds 1, 3, 4, 5, 6, 7, 8, 9, 10, 11 and 12 every change was run first.) After the strengthenings every seeded change is reported by the quick
tier of some check, except C04-r2-3 (quick: about one seed in four; thorough: always), C03-r9-1 and C11-r9-1 (thorough
tier only) and the two changes to `Load` that lie outside the property as stated (C04-r6-1, C04-r6-2). The trend over
the rounds (share reported on arrival: 88, 73, 65, 50, 53, 89, 85, 65, 70, 74, 100, 71 percent) shows what this technique can and
cannot claim: each round of independent changes still found regimes no generator reached, every such regime was then
added, and nothing here establishes that the next round would find none. Changes reported by a different
check than the one they were written for: C03-r2-1 (C01/C02), C03-r2-2 (C19), C03-r2-3 (C18), C10-r3-2 (C06),
C19-r3-1 (C13) - each because the behaviour it breaks is that other property's subject. In round 4 four changes to
shared helpers were first reported by the helper's own property (C06-r4-1 and C09-r4-1 by C17, C06-r4-2 by C16,
C20-r4-1 by C19) and silent in the check they were written for; the generators of those checks were then extended
until they report them too (hub hosts for views, Kneser n > 32, re-entrant weight functions). In round 5, C09-r5-2 was first reported by C05, C13-r5-2 is
reported by C12 only (the automata of C13 come from `dawg.New`; the change needs a Builder that is carried on after a
rejected Add), and C19-r5-1 was first caught by the sequential C09 check once delivered cliques were watched. Round 6 (algorithmic slips
on small structured inputs) is where the checks were strongest: 34 of 38 valid changes were reported on arrival. Two round-6
changes to `Load` are not claimed: C04-r6-1 only matters for a >= m, outside the quantifier 0 <= a < m; C04-r6-2 breaks
loading several saves from ONE shared reader, which the property does not promise (and which the unmodified code does not
deliver either for a reader that is not an io.ByteReader) - asserting it would demand more than the property states.
Round 7 was the control sample for the strengthenings of rounds 4-6 (same kind of commit as rounds 4 and 5, which had been
reported on arrival only half of the time): 34 of 40 were reported on arrival. Round 8 (regressions next to repaired defects)
found gaps again, 14 of 40: degenerate predicates on 0..1 vertices, one save position in twelve thousand, graphs with a
RemoveVertex-then-AddVertex history, results and input buffers the caller overwrites, overlapping Builders, and two changes
that make IsPlanar allocate without bound, which first ended as INCONCLUSIVE instead of as a verdict. Round 9 (same brief):
28 of 40 on arrival; two are reported by the thorough tier only (C03-r9-1 needs a search on 11 vertices, C11-r9-1 about
one targeted graph in 200000), two belong to another property's check (C03-r9-2, C13-r9-1), the other seven led to the
next strengthenings (independent decoded graphs, aliased arguments, writers with WriteString, wide final nodes, ...).
Round 10: 26 of 35 on arrival; two belong to another property's check (C09-r10-2 to C06, C19-r10-1 to C13), seven led to
the last strengthenings (results of encoders and decoders owned by the caller, Roots, near-intervals, a big shared graph
under the race detector, hundreds of large TSP tables with mixed-width weights, FlowerSnark(1)). Round 11 (57 classical
single-edit mutants that survive the repository's suite): all 57 were reported by the quick tier on arrival. Round 12:
15 of 21 on arrival; four belong to another property's check and were reported there (C07-r12-2 and C09-r12-1 by C06,
C13-r12-1 by C12, C19-r12-2 by C02 after one more comparison), two led to the last strengthenings (arguments of Union
re-checked after later operations; the shards of All(8) run concurrently).

| seeded change | what it does (from the author's note) | result |
|---|---|---|
"""
for r in rows:
    out += f"| {r[0]} | {r[1].replace('|','/')} | {r[2].replace('|','/')} |\n"
out += """
Lessons folded back into the checks: (1) feed editing functions and transformations with graphs produced by the library's
own constructors and decoders, not only with values assembled from exported fields (shared backing arrays only show
there), and with edge markers other than 1; (2) inputs must cross every representation threshold one can name: one-byte
indices (n >= 18, 129 links, 256 augmentations), one machine word (n > 64, 64 factors of two), small-size fast paths
(lists of 9, 17, 21+ entries), the one-byte size field, every order n up to 130; (3) scratch buffers and slices handed
to an API are part of the input domain, including their spare capacity and what the caller does with them afterwards;
(4) a sequential reference run warms lazily filled caches, so half of the concurrent workloads compute their reference
afterwards; (5) label-order dependent defects need many relabellings (and many vertex orders) per graph, not many
graphs; (6) symmetric inputs must come in sizes where refinement cells have 13, 21, 36 vertices, not only in sizes where
an exhaustive oracle exists - the metamorphic relation needs no oracle; (7) views must be non-identity and nested, be
read more than once, and the graph underneath must be re-checked; (8) receivers, builders, writers and iterators must
have a past (encoded before, filled before, failed before, re-initialised, buffer reused); (9) a count can be a complete
oracle when the objects are checked to be pairwise different: All(10) against A000088(10) finds a change that loses one
class in twelve million; (10) a defect can make the code under test allocate without bound: operations that traverse a
structure run under a watchdog that saves the case and exits, otherwise the run ends INCONCLUSIVE instead of with a
verdict; (11) rapid's integer generators favour 0 and range ends: `IntRange(0,n) == 0` is not a rare event (helper `rare`);
(12) the race detector does not see writes made inside uninstrumented runtime-internal helpers (sort.Slice's swapper):
argument immutability has to be asserted sequentially as well; (13) callbacks handed to the library (pruning predicates,
weight functions) are part of the input: they should behave like a caller's would - read the live graph through the
library's own helpers and views, call back into the library - and what they see must agree with a direct reading;
(14) every result that is a slice is watched: copied on return and compared again after later calls, and every argument
slice is overwritten after the call, which turns aliasing between caller and library into a visible difference;
(15) 'a graph with a past' is a representation of its own: each graph is also presented after an add-vertex/remove-vertex
detour, and as a small view of a much larger host with hub vertices; (16) sizes: every check now has a regime well past
64, 128, 256 and 512 elements, with sizes AT multiples of 64 and 256 and next to them drawn on purpose, using oracles that
are known by construction (block trees, long thin partial orders, chains in a DAWG, transported orbit partitions) where
exhaustive oracles stop; (17) injected faults vary in kind, not only in position: the error VALUE a failing Write
returns is part of the fault space; (18) parameter regimes that make an iterator long but thin (k = n, near-total orders)
are as cheap as small ones and reach code that small n never enters; (19) observers are part of the history: they are
read after every step in some cases and only every second, third or fifth step in others; (20) data handed to the
library through an interface comes in every conforming behaviour of that interface (io.Reader with one byte, half, or
data-with-EOF per call; io.Writer failing with different error values; a caller's own graph.Graph implementation);
(21) values the library returns or that are derived from shared values are edited by their owner while others still read
the originals, and own values are edited the moment a call returns - under the race detector this shows library
goroutines that outlive their call and deep copies that are not deep; (22) resource exhaustion caused by the code under
test must become a verdict: a memory watchdog (live heap above 6 GB on inputs of a few hundred vertices) and per-call
deadlines for polynomial functions record the case and end the process, otherwise the address-space limit kills it
without a trace and the run is merely INCONCLUSIVE; (23) 'every position' must mean every position where that is
affordable: one wrong save position among 12347 is found by checking all of them, not by sampling; (24) degenerate
members of a quantifier's domain (the empty hereditary class, n = 0 and 1) need explicit generators.
"""
s = open('/verif/DESIGN.md').read()
tail = ''
if '\n## 10. Sub-properties as built' in s:
    tail = s[s.index('\n## 10. Sub-properties as built'):]
s = s[:s.index('\n## 9. Seeded breaking changes')]
open('/verif/DESIGN.md', 'w').write(s + out + tail)
print(len(rows), stats)
